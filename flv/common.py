"""Shared checker machinery: violations, known findings, collectors, Hypothesis drivers,
shard fan-out, evidence writer.

Every check is `check.py <Cxx> --tier quick|thorough`.  A property module (flv/props/cNN.py)
exposes

    PROPERTY = "C17"
    LEVEL = "exploration" | "fault_enumeration"
    RULE = "<how cases are generated and what makes one non-trivial>"
    ASSUMPTIONS = [...]
    def subchecks(tier) -> list[SubCheck]
    def replay(case) -> None            # re-executes one saved case, raises Violation

A SubCheck is executed inside worker processes (one process per shard).
"""
import fnmatch
import hashlib
import json
import os
import sys
import time
import traceback
from collections import Counter

VERIF_DIR = os.path.dirname(os.path.dirname(os.path.abspath(__file__)))
REPO_DIR = os.environ.get("FLV_REPO", "/repo")


def setup_path():
    """Import flumine from the working tree of REPO_DIR (never from a stale copy)."""
    sys.dont_write_bytecode = True
    if sys.path[0] != REPO_DIR:
        sys.path.insert(0, REPO_DIR)
    if VERIF_DIR not in sys.path:
        sys.path.insert(1, VERIF_DIR)


class Violation(Exception):
    """An oracle clause failed.  signature = clause + discriminating facts."""

    def __init__(self, clause, facts=(), message="", case=None):
        self.clause = clause
        self.facts = tuple(str(f) for f in facts)
        self.message = message
        self.case = case
        super().__init__("%s: %s" % (self.signature, message))

    @property
    def signature(self):
        if self.facts:
            return "%s[%s]" % (self.clause, ",".join(self.facts))
        return self.clause


class HarnessError(Exception):
    pass


# ------------------------------------------------------------------------------------------
# known findings
# ------------------------------------------------------------------------------------------


def load_known(prop_id):
    path = os.path.join(VERIF_DIR, "known_findings.json")
    if not os.path.exists(path):
        return []
    with open(path) as f:
        data = json.load(f)
    return [k for k in data.get("known", []) if k["property"] == prop_id]


def match_known(known, signature):
    """known signatures are literal except for '*' (any run of characters)"""
    import re

    for k in known:
        pat = "^" + ".*".join(re.escape(part) for part in k["signature"].split("*")) + "$"
        if re.match(pat, signature):
            return k
    return None


# ------------------------------------------------------------------------------------------
# JSON helpers
# ------------------------------------------------------------------------------------------


def jdefault(o):
    try:
        import enum, datetime, decimal, fractions

        if isinstance(o, enum.Enum):
            return o.name
        if isinstance(o, (datetime.datetime, datetime.date)):
            return o.isoformat()
        if isinstance(o, (decimal.Decimal, fractions.Fraction)):
            return float(o)
        if isinstance(o, (set, frozenset)):
            return sorted(o, key=repr)
        if isinstance(o, tuple):
            return list(o)
    except Exception:
        pass
    return repr(o)


def canon(case):
    return json.dumps(case, sort_keys=True, default=jdefault, separators=(",", ":"))


def case_hash(case):
    return hashlib.blake2b(canon(case).encode(), digest_size=8).hexdigest()


# ------------------------------------------------------------------------------------------
# Collector
# ------------------------------------------------------------------------------------------


class Collector:
    """Per-shard record of what was explored."""

    MAX_SAMPLES = 4

    def __init__(self, prop_id, known=None):
        self.prop_id = prop_id
        self.known = known if known is not None else load_known(prop_id)
        self.suppressed = set()  # unknown signatures already reported in this run
        self.evaluations = 0
        self.nontrivial = set()
        self.classes = Counter()
        self.samples = []
        self.known_hits = Counter()
        self.excluded_after_known = 0
        self.violations = []  # dicts: signature, message, case
        self.last_failure = None
        self.sub = Counter()  # evaluations per subcheck
        self.exhaustive = {}

    # a case was executed
    def record(self, case, nontrivial=False, classes=(), sub=None, sample=True):
        self.evaluations += 1
        if sub:
            self.sub[sub] += 1
        for c in classes:
            self.classes[c] += 1
        if nontrivial:
            h = case_hash(case)
            if h not in self.nontrivial:
                self.nontrivial.add(h)
                if sample and len(self.samples) < self.MAX_SAMPLES:
                    self.samples.append({"sub": sub, "case": json.loads(canon(case))})

    def count(self, n, sub=None):
        """bulk count for cheap enumerations (cases not hashed individually)."""
        self.evaluations += n
        if sub:
            self.sub[sub] += n

    def handle(self, violation, case=None):
        """Returns True if the violation is known/suppressed (search continues); otherwise
        records it as the last failure and returns False (caller re-raises)."""
        sig = violation.signature
        k = match_known(self.known, sig)
        if k is not None:
            self.known_hits[k["signature"]] += 1
            self.excluded_after_known += 1
            return True
        if sig in self.suppressed:
            self.excluded_after_known += 1
            return True
        self.last_failure = {
            "signature": sig,
            "message": violation.message,
            "case": json.loads(canon(case if case is not None else violation.case)),
        }
        return False

    def result(self):
        return {
            "evaluations": self.evaluations,
            "nontrivial": sorted(self.nontrivial),
            "classes": dict(self.classes),
            "samples": self.samples,
            "known_hits": dict(self.known_hits),
            "excluded_after_known": self.excluded_after_known,
            "violations": self.violations,
            "sub": dict(self.sub),
            "exhaustive": self.exhaustive,
        }


# ------------------------------------------------------------------------------------------
# Hypothesis drivers
# ------------------------------------------------------------------------------------------


def _hyp_settings(n, tier, shrink=True, steps=None):
    from hypothesis import settings, HealthCheck, Phase, Verbosity

    phases = [Phase.generate, Phase.target]
    if shrink:
        phases.append(Phase.shrink)
    kw = dict(
        max_examples=n,
        database=None,
        deadline=None,
        derandomize=False,
        report_multiple_bugs=False,
        print_blob=False,
        phases=phases,
        suppress_health_check=[HealthCheck.too_slow, HealthCheck.data_too_large],
        verbosity=Verbosity.quiet,
    )
    if steps is not None:
        kw["stateful_step_count"] = steps
    return settings(**kw)


def derive_seed(seed, *parts):
    h = hashlib.blake2b(repr((seed,) + parts).encode(), digest_size=8).digest()
    return int.from_bytes(h, "big")


MAX_SIGNATURES = {"quick": 2, "thorough": 4}
SHRINK_CALLS = {"quick": 250, "thorough": 4000}


def run_given(col, strategy, fn, n, seed, tier, sub, shrink=True):
    """fn(case) -> (nontrivial: bool, classes: iterable) or raises Violation.
    Known/suppressed violations do not stop the search.  Shrinking is bounded by a call budget:
    once it is used up every candidate other than the best failing case found so far passes
    immediately, so the shrinker terminates and Hypothesis replays that best case last."""
    import hypothesis
    from hypothesis import given

    hyp_shrink = shrink and tier != "quick"
    for attempt in range(MAX_SIGNATURES[tier]):
        col.last_failure = None
        state = {"calls_after_failure": 0, "failing": set()}

        @hypothesis.seed(derive_seed(seed, sub, attempt))
        @_hyp_settings(n, tier, hyp_shrink)
        @given(strategy)
        def test(case):
            if col.last_failure is not None:
                state["calls_after_failure"] += 1
                if state["calls_after_failure"] > SHRINK_CALLS[tier]:
                    if case_hash(case) not in state["failing"]:
                        return
            try:
                try:
                    res = fn(case)
                except (Violation, HarnessError, hypothesis.errors.HypothesisException):
                    raise
                except Exception as exc:
                    # an unexpected exception out of repository code is a finding (crash), not a harness error;
                    # crash_violation raises HarnessError when no repository frame is involved
                    raise crash_violation(exc, case, "crash") from exc
            except Violation as v:
                if col.handle(v, case):
                    col.record(case, False, ("after-known-finding",), sub)
                    return
                state["failing"].add(case_hash(case))
                raise
            nontrivial, classes = res if res is not None else (False, ())
            col.record(case, nontrivial, classes, sub)

        try:
            test()
            return
        except hypothesis.errors.Flaky:
            # the case violated the property when it was first executed and passed when Hypothesis executed it
            # again: the code under test keeps state across runs within the process.  The first execution is a real
            # history (earlier runs in the same process, then this one), so the violation stands; the saved case may
            # need that history to reproduce.
            if col.last_failure is None:
                raise
            lf = dict(col.last_failure)
            lf["message"] = lf["message"] + " [observed once; the same case passed when executed again in this process: the outcome depends on state kept across runs]"
        except Violation as v:
            lf = col.last_failure or {
                "signature": v.signature,
                "message": v.message,
                "case": json.loads(canon(v.case)),
            }
            if shrink and not hyp_shrink:
                lf = ddmin_case(lf, fn, SHRINK_CALLS[tier])
        lf["sub"] = sub
        col.violations.append(lf)
        col.suppressed.add(lf["signature"])


def _paths(obj, prefix=()):
    """paths of all lists inside a JSON-like object (deepest first)"""
    out = []
    if isinstance(obj, dict):
        for k, v in obj.items():
            out += _paths(v, prefix + (k,))
    elif isinstance(obj, list):
        for i, v in enumerate(obj):
            out += _paths(v, prefix + (i,))
        out.append(prefix)
    return out


def _get(obj, path):
    for k in path:
        obj = obj[k]
    return obj


def ddmin_case(lf, fn, max_calls):
    """bounded greedy minimisation of a JSON case: delete list elements (largest lists first, chunks then
    singles) while fn still raises a Violation with the same signature."""
    import copy

    best = lf
    calls = [0]

    def fails(c):
        calls[0] += 1
        try:
            try:
                fn(c)
            except (Violation, HarnessError):
                raise
            except Exception as exc:
                raise crash_violation(exc, c, "crash") from exc
        except Violation as v:
            if v.signature == lf["signature"]:
                return {"signature": v.signature, "message": v.message, "case": json.loads(canon(c))}
        except Exception:
            return None
        return None

    changed = True
    while changed and calls[0] < max_calls:
        changed = False
        case = best["case"]
        paths = sorted((p for p in _paths(case) if (p or isinstance(case, list)) and (not p or p[0] not in ("clients", "config"))),
                       key=lambda p: -len(_get(case, p)))
        if isinstance(case, list):
            paths = [p for p in paths if not (p and p[0] == 0)]  # entry 0 of a trace is its configuration
        for path in paths:
            if calls[0] >= max_calls:
                break
            try:
                lst = _get(best["case"], path)
            except (KeyError, IndexError, TypeError):
                continue
            if not isinstance(lst, list):
                continue
            n = len(lst)
            chunk = max(1, n // 2)
            while chunk >= 1 and calls[0] < max_calls:
                i = len(_get(best["case"], path)) - chunk
                progressed = False
                while i >= 0 and calls[0] < max_calls:
                    cand = copy.deepcopy(best["case"])
                    l2 = _get(cand, path)
                    keep = 1 if (not path or path[-1] in ("markets", "strategies", "runners")) else 0
                    if len(l2) < i + chunk or len(l2) - chunk < keep or (not path and i < 1):
                        i -= chunk
                        continue
                    del l2[i:i + chunk]
                    r = fails(cand)
                    if r is not None:
                        best = r
                        changed = progressed = True
                    i -= chunk
                if chunk == 1:
                    break
                chunk = chunk // 2
    return best


def run_machine(col, machine_cls, n, steps, seed, tier, sub, shrink=True, replay_fn=None):
    """machine_cls: RuleBasedStateMachine subclass with class attribute `col` assigned here;
    the machine calls self.fail(Violation) -> handled like run_given.  The machine must keep
    self.trace (list of JSON-able steps) and call col.record at teardown."""
    import hypothesis
    from hypothesis.stateful import run_state_machine_as_test

    for attempt in range(MAX_SIGNATURES[tier]):
        col.last_failure = None
        cls = type(machine_cls.__name__, (machine_cls,), {"col": col, "sub": sub, "tier": tier,
                                                        "calls_after_failure": [0]})
        cls = hypothesis.seed(derive_seed(seed, sub, attempt))(cls)
        hyp_shrink = shrink and tier != "quick"
        try:
            run_state_machine_as_test(cls, settings=_hyp_settings(n, tier, hyp_shrink, steps))
            return
        except hypothesis.errors.Flaky:
            # (see run_given: violated when first executed, passed when executed again in this process)
            if col.last_failure is None:
                raise
            lf = dict(col.last_failure)
            lf["message"] = lf["message"] + " [observed once; the same trace passed when executed again in this process: the outcome depends on state kept across runs]"
            lf["sub"] = sub
            col.violations.append(lf)
            col.suppressed.add(lf["signature"])
            continue
        except Violation as v:
            lf = col.last_failure or {
                "signature": v.signature,
                "message": v.message,
                "case": json.loads(canon(v.case)),
            }
            if shrink and not hyp_shrink and replay_fn is not None:
                lf = ddmin_case(lf, replay_fn, SHRINK_CALLS[tier])
            lf["sub"] = sub
            col.violations.append(lf)
            col.suppressed.add(lf["signature"])
            continue


def innermost_repo_frame(exc):
    """(filename:function) of the innermost frame inside the repository for bucketing."""
    tb = traceback.extract_tb(exc.__traceback__)
    loc = None
    for fr in tb:
        if "/flumine/" in fr.filename and "/verif/" not in fr.filename:
            loc = "%s:%s" % (os.path.basename(fr.filename), fr.name)
    return loc


def crash_violation(exc, case=None, clause="crash"):
    """Turn an unexpected exception raised from repository code into a Violation; exceptions
    whose innermost frame is in the harness are harness errors."""
    tb = traceback.extract_tb(exc.__traceback__)
    if tb and "/flumine/" not in tb[-1].filename and "/betfairlightweight/" not in tb[-1].filename:
        # innermost frame is harness / stdlib called from harness
        inner_repo = innermost_repo_frame(exc)
        if inner_repo is None:
            raise HarnessError("".join(traceback.format_exception(exc))) from exc
    loc = innermost_repo_frame(exc) or "?"
    return Violation(clause, (type(exc).__name__, loc), "%s: %s" % (type(exc).__name__, exc), case)


# ------------------------------------------------------------------------------------------
# SubCheck + shard execution
# ------------------------------------------------------------------------------------------


class SubCheck:
    """name; fn(col, budget, seed, tier, shard, nshards) executed in every shard with
    budget = ceil(total/nshards)."""

    def __init__(self, name, fn, total, shardable=True):
        self.name = name
        self.fn = fn
        self.total = total
        self.shardable = shardable


def _worker(args):
    prop_mod_name, tier, seed, shard, nshards = args
    setup_path()
    os.environ["FLV_IN_WORKER"] = "1"
    if os.environ.get("FLV_FAULTHANDLER"):
        # debugging aid: periodic traceback dump of a long-running shard
        import faulthandler

        faulthandler.dump_traceback_later(float(os.environ["FLV_FAULTHANDLER"]), repeat=True,
                                          file=open("/tmp/flv_stack_%d.txt" % os.getpid(), "w"))
    import importlib

    t0 = time.time()
    try:
        mod = importlib.import_module(prop_mod_name)
        col = Collector(mod.PROPERTY)
        for sc in mod.subchecks(tier):
            if not sc.shardable and shard != 0:
                continue
            budget = sc.total if not sc.shardable else -(-sc.total // nshards)
            if budget <= 0:
                continue
            sc.fn(col, budget, derive_seed(seed, shard), tier, shard, nshards)
        res = col.result()
        res["wall"] = time.time() - t0
        return ("ok", res)
    except Exception:  # harness error
        return ("error", traceback.format_exc())


def run_property(prop_mod_name, tier, seed, nshards):
    import multiprocessing as mp

    ctx = mp.get_context("fork")
    jobs = [(prop_mod_name, tier, seed, s, nshards) for s in range(nshards)]
    if nshards == 1:
        results = [_worker(jobs[0])]
    else:
        with ctx.Pool(min(nshards, os.cpu_count() or 1), maxtasksperchild=1) as pool:
            results = pool.map(_worker, jobs, chunksize=1)
    return results


def merge(results):
    m = {
        "evaluations": 0,
        "nontrivial": set(),
        "classes": Counter(),
        "samples": [],
        "known_hits": Counter(),
        "excluded_after_known": 0,
        "violations": [],
        "sub": Counter(),
        "exhaustive": {},
    }
    for r in results:
        m["evaluations"] += r["evaluations"]
        m["nontrivial"].update(r["nontrivial"])
        m["classes"].update(r["classes"])
        m["known_hits"].update(r["known_hits"])
        m["excluded_after_known"] += r["excluded_after_known"]
        m["sub"].update(r["sub"])
        for k, v in r["exhaustive"].items():
            m["exhaustive"][k] = m["exhaustive"].get(k, True) and v
        for s in r["samples"]:
            if len(m["samples"]) < 5:
                m["samples"].append(s)
        seen = {v["signature"] for v in m["violations"]}
        for v in r["violations"]:
            if v["signature"] not in seen:
                m["violations"].append(v)
                seen.add(v["signature"])
    return m


def write_evidence(mod, tier, seed, merged, wall, exhaustive=False):
    path = os.path.join(os.environ.get("FLV_OUT_DIR", VERIF_DIR), "evidence", "%s.json" % mod.PROPERTY)
    os.makedirs(os.path.dirname(path), exist_ok=True)
    cov = {
        "evaluations": merged["evaluations"],
        "distinct_nontrivial": len(merged["nontrivial"]),
        "rule": mod.RULE,
        "samples": merged["samples"],
        "classes": dict(sorted(merged["classes"].items())),
        "per_subcheck_evaluations": dict(sorted(merged["sub"].items())),
        "known_finding_hits": dict(merged["known_hits"]),
        "excluded_after_known_finding": merged["excluded_after_known"],
    }
    if merged["exhaustive"]:
        cov["exhaustive_subchecks"] = merged["exhaustive"]
        if all(merged["exhaustive"].values()) and getattr(mod, "ALL_EXHAUSTIVE", False):
            cov["exhaustive"] = True
    ev = {
        "property_id": mod.PROPERTY,
        "tier": tier,
        "seed": int(seed),
        "level": mod.LEVEL,
        "coverage": cov,
        "assumptions": list(getattr(mod, "ASSUMPTIONS", [])),
        "wall_s": round(wall, 2),
        "violations": len(merged["violations"]),
    }
    tmp = path + ".tmp"
    with open(tmp, "w") as f:
        json.dump(ev, f, indent=1, default=jdefault)
    os.replace(tmp, path)
    return path


def save_replay(prop_id, v):
    d = os.path.join(os.environ.get("FLV_OUT_DIR", VERIF_DIR), "replays", prop_id)
    os.makedirs(d, exist_ok=True)
    h = hashlib.blake2b(canon(v).encode(), digest_size=5).hexdigest()
    safe = "".join(c if c.isalnum() else "_" for c in v["signature"])[:60]
    path = os.path.join(d, "%s-%s.json" % (safe, h))
    with open(path, "w") as f:
        json.dump({"property": prop_id, **v}, f, indent=1, default=jdefault)
    return path
