"""Hypothesis strategies: books, market timelines, action scripts.  Every random choice is a
Hypothesis draw; the generator tracks the book it has built so that prices of scripted orders can
be placed through / at / behind the market by construction."""
from hypothesis import strategies as st

from . import world
from .oracles import ladder as L

SIZES_C = [1, 2, 50, 99, 100, 101, 199, 200, 201, 500, 1000, 1234, 2500, 10000]


def size_c(draw, lo=1, hi=20000):
    """size in cents, skewed to interesting values"""
    if draw(st.integers(0, 3)):
        v = draw(st.sampled_from(SIZES_C))
    else:
        v = draw(st.integers(lo, hi))
    return max(lo, min(hi, v))


@st.composite
def book_side_pair(draw, nticks, mid=None, max_levels=4, allow_empty=True):
    """-> (atb [[tick,size]...] best first, atl [[tick,size]...] best first), never crossed"""
    if mid is None:
        mid = draw(st.integers(3, nticks - 4))
    nb = draw(st.integers(0 if allow_empty else 1, max_levels))
    nl = draw(st.integers(0 if allow_empty else 1, max_levels))
    atb, atl = [], []
    t = mid
    for _ in range(nb):
        t -= draw(st.integers(1, 3)) if atb else draw(st.integers(0, 2))
        if t < 0:
            break
        atb.append([t, size_c(draw) / 100])
    t = mid + 1
    for _ in range(nl):
        t += draw(st.integers(1, 3)) if atl else draw(st.integers(0, 2))
        if t > nticks - 1:
            break
        atl.append([t, size_c(draw) / 100])
    return atb, atl


DEFAULT_FEATURES = {
    "suspend": 1, "inplay": 1, "remove": 1, "close": True, "trades": 3, "books": 3, "bsp": True,
    "max_dt_ms": 600_000, "zero_dt": False,
}


@st.composite
def timeline(draw, spec, n_steps, features=None, mid_ticks=None):
    """Mutates nothing; returns (steps, states) where states[k] is the generator's view after
    update k (k=0 is the initial definition): dict(status, inplay, books per runner, removed set).
    Produces realistic sequences: a close is preceded by a suspension; removal only pre-close."""
    f = dict(DEFAULT_FEATURES)
    f.update(features or {})
    nr = len(spec["runners"])
    nticks = len(world.ladder_prices(spec))
    mids = list(mid_ticks) if mid_ticks else [draw(st.integers(5, max(6, min(nticks - 6, 250)))) for _ in range(nr)]
    status, inplay = "OPEN", False
    removed = set()
    books = [([], []) for _ in range(nr)]
    states = [dict(status=status, inplay=inplay, books=[(list(a), list(b)) for a, b in books], removed=set())]
    steps = []
    kinds = ["book"] * f["books"] + ["trade"] * f["trades"]
    kinds += ["suspend"] * f["suspend"] + ["inplay"] * f["inplay"] + ["remove"] * f["remove"]
    closed = False
    dts = [1, 5, 40, 120, 170, 280, 300, 1000, 1500, 5000, 12_000, 60_000, f["max_dt_ms"]]
    if f["zero_dt"]:
        dts = [0] + dts
    i = 0
    while i < n_steps and not closed:
        dt = draw(st.sampled_from(dts))
        dt = min(dt, f["max_dt_ms"])
        k = draw(st.sampled_from(kinds))
        step = None
        if k in ("book", "trade") or (k == "suspend" and status == "SUSPENDED" and draw(st.booleans())):
            rcs = []
            for r in sorted(draw(st.sets(st.integers(0, nr - 1), min_size=1, max_size=min(nr, 2)))):
                if r in removed:
                    continue
                rc = {"r": r}
                if k == "book" or draw(st.integers(0, 3)) == 0:
                    if draw(st.integers(0, 2)) == 0:
                        mids[r] = max(3, min(nticks - 4, mids[r] + draw(st.integers(-4, 4))))
                    atb, atl = draw(book_side_pair(nticks, mids[r]))
                    rc["atb"], rc["atl"] = atb, atl
                    books[r] = (atb, atl)
                if k == "trade" or draw(st.integers(0, 3)) == 0:
                    n = draw(st.integers(1, 3))
                    trd = []
                    for _ in range(n):
                        t = max(0, min(nticks - 1, mids[r] + draw(st.integers(-5, 5))))
                        even = draw(st.booleans())
                        inc = size_c(draw, 2, 5000)
                        if even:
                            inc += inc % 2
                        trd.append([t, inc / 100])
                    rc["trd"] = trd
                rcs.append(rc)
            step = {"dt": dt, "k": "book", "rc": rcs}
        elif k == "suspend":
            if status == "OPEN":
                status = "SUSPENDED"
                step = {"dt": dt, "k": "suspend", "bump": draw(st.integers(0, 4)) > 0}
            else:
                status = "OPEN"
                step = {"dt": dt, "k": "open", "bump": draw(st.booleans())}
        elif k == "inplay" and not inplay:
            inplay = True
            step = {"dt": dt, "k": "inplay", "bet_delay": draw(st.sampled_from([0, 1, 1, 3, 5, 12])),
                    "status": status, "bump": True}
            if f["bsp"] and spec["bsp_market"]:
                prices = world.ladder_prices(spec)
                bsp = []
                for r in range(nr):
                    c = draw(st.integers(0, 9))
                    if c == 0:
                        bsp.append(None)
                    elif c == 1:
                        bsp.append("NaN")
                    else:
                        bsp.append(round(prices[max(0, min(nticks - 1, mids[r] + draw(st.integers(-6, 6))))] +
                                         draw(st.sampled_from([0, 0.003, 0.017])), 3))
                step["bsp"] = bsp
        elif k == "remove" and len(removed) < nr - 1:
            cand = [r for r in range(nr) if r not in removed]
            r = cand[draw(st.integers(0, len(cand) - 1))]
            removed.add(r)
            af = draw(st.sampled_from([None, 0, 1.0, 2.49, 2.5, 2.51, 10, 40, 99, spec["runners"][r].get("af")]))
            step = {"dt": dt, "k": "remove", "r": r}
            if af is not None:
                step["af"] = af
            else:
                step["af"] = None
            books[r] = ([], [])
        if step is None:
            step = {"dt": dt, "k": "book", "rc": []}
        steps.append(step)
        states.append(dict(status=status, inplay=inplay, books=[(list(a), list(b)) for a, b in books],
                           removed=set(removed)))
        i += 1
    if f["close"]:
        if status != "SUSPENDED":
            steps.append({"dt": draw(st.sampled_from([1, 1000, 60_000])), "k": "suspend", "bump": True})
            states.append(dict(status="SUSPENDED", inplay=inplay, books=states[-1]["books"], removed=set(removed)))
        res = results(draw, spec, removed)
        steps.append({"dt": draw(st.sampled_from([1, 1000, 60_000])), "k": "close", "results": res})
        states.append(dict(status="CLOSED", inplay=inplay, books=states[-1]["books"], removed=set(removed)))
    return steps, states


def results(draw, spec, removed=()):
    nr = len(spec["runners"])
    nw = spec["number_of_winners"]
    active = [r for r in range(nr) if r not in removed]
    res = ["LOSER"] * nr
    k = min(len(active), draw(st.sampled_from([nw, nw, nw, nw + 1, nw + 2])))
    winners = draw(st.permutations(active))[:k] if active else []
    for r in winners:
        res[r] = "WINNER"
    if spec["market_type"] == "EACH_WAY":
        for r in active:
            if res[r] == "LOSER" and draw(st.booleans()):
                res[r] = "PLACED"
    return res


@st.composite
def place_op(draw, spec, state, nr, kinds=("LIMIT",), fok=True, pers=True, sp=False, mv=True, sizes=None,
             runners=None):
    """one place op priced relative to the book the generator built for that update"""
    nticks = len(world.ladder_prices(spec))
    r = draw(st.sampled_from(runners)) if runners else draw(st.integers(0, nr - 1))
    side = draw(st.sampled_from(["BACK", "LAY"]))
    typ = draw(st.sampled_from(list(kinds)))
    atb, atl = state["books"][r] if r < len(state["books"]) else ([], [])
    # a BACK order matches against available_to_back (flumine's naming: prices one can back at)
    ref_side = atb if side == "BACK" else atl
    other = atl if side == "BACK" else atb
    if ref_side:
        ref = ref_side[0][0]
    elif other:
        ref = other[0][0]
    else:
        ref = draw(st.integers(5, nticks - 6))
    rel = draw(st.sampled_from(["through", "through", "at", "behind1", "behind", "far"]))
    sgn = -1 if side == "BACK" else 1  # BACK: lower tick = through (worse price for backer)
    off = {"through": sgn * draw(st.integers(1, 5)), "at": 0, "behind1": -sgn, "behind": -sgn * draw(st.integers(2, 6)),
           "far": -sgn * draw(st.integers(10, 40))}[rel]
    tick = max(0, min(nticks - 1, ref + off))
    op = {"op": "place", "r": r, "side": side, "type": typ, "tick": tick}
    if typ == "LIMIT":
        if sizes == "level" and ref_side and draw(st.booleans()):
            lvl = ref_side[draw(st.integers(0, len(ref_side) - 1))][1]
            op["size"] = max(0.01, round(lvl + draw(st.sampled_from([-0.01, 0, 0.01])), 2))
        else:
            op["size"] = size_c(draw, 1, 5000) / 100
        if pers:
            op["pers"] = draw(st.sampled_from(["LAPSE", "LAPSE", "PERSIST", "MARKET_ON_CLOSE"] if sp else ["LAPSE", "LAPSE", "PERSIST"]))
        if fok and draw(st.integers(0, 3)) == 0:
            op["tif"] = "FILL_OR_KILL"
            c = draw(st.integers(0, 4))
            s = op["size"]
            op["min_fill"] = [None, round(max(0.01, s / 2), 2), s, round(s + 0.01, 2), 0.01][c]
    else:
        op["liability"] = size_c(draw, 100, 5000) / 100
    if mv and draw(st.integers(0, 7)) == 0:
        op["mv"] = draw(st.sampled_from(["cur", "stale"]))
    return op


@st.composite
def follow_op(draw, allow=("cancel", "replace", "update")):
    k = draw(st.sampled_from(list(allow)))
    op = {"op": k, "o": draw(st.integers(0, 7))}
    if k == "cancel":
        op["red"] = draw(st.sampled_from([None, None, 0.25, 0.5, 1.0, 1.5, 3.0]))
    elif k == "replace":
        op["ticks"] = draw(st.sampled_from([-6, -3, -1, 1, 2, 5, 12]))
    else:
        op["pers"] = draw(st.sampled_from(["PERSIST", "LAPSE", "MARKET_ON_CLOSE"]))
    return op


@st.composite
def script(draw, spec, states, mi=0, max_entries=6, max_ops=3, place_kw=None, follow=("cancel", "replace", "update"),
           follow_weight=1):
    """list of {"m","at","ops"}; `at` indexes delivered (non-closing) updates = states index"""
    nr = len(spec["runners"])
    n_upd = len(states)
    out = []
    n = draw(st.integers(1, max_entries))
    open_idx = [i for i, s_ in enumerate(states[: max(1, n_upd - 1)]) if s_["status"] == "OPEN"] or [0]
    ats = []
    for j in range(n):
        if draw(st.integers(0, 4)):
            pool = open_idx if j else open_idx[: max(1, (len(open_idx) + 1) // 2)]
            ats.append(pool[draw(st.integers(0, len(pool) - 1))])
        else:
            ats.append(draw(st.integers(0, max(0, n_upd - 2))))
    ats.sort()
    placed = 0
    for at in ats:
        ops = []
        for _ in range(draw(st.integers(1, max_ops))):
            if placed and follow and draw(st.integers(0, 1 + follow_weight)) >= 2:
                ops.append(draw(follow_op(follow)))
            else:
                ops.append(draw(place_op(spec, states[at], nr, **(place_kw or {}))))
                placed += 1
        out.append({"m": mi, "at": at, "ops": ops})
    return out


def strategy_spec(name="A", client=0, **kw):
    s = {"name": name, "client": client, "max_order_exposure": None, "max_selection_exposure": None,
         "max_trade_count": 10**6, "max_live_trade_count": 10**6}
    s.update(kw)
    return s
