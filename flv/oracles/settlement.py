"""Exact settlement of a list of fills (Fractions); independent of flumine."""
from fractions import Fraction as F


def fr(x):
    return F(str(x))


def settle(side, fills, result, market_type="WIN", n_dead_heat=1, ew_divisor=None, line_result=None, is_line=False):
    """fills: [(price, size)]; result: WINNER / LOSER / PLACED / REMOVED (runner status at close).
    Returns the BACK-or-LAY profit as a Fraction.
      * win:      stake * (price - 1)        lose: -stake         (lay = mirror image)
      * dead heat (n winners for one place): stake * (price / n - 1)
      * each way: two bets of the stake - win part at price, place part at 1 + (price - 1) / divisor
      * line:     even money; a BACK (sell) wins when the result is below the struck line, a LAY (buy) when above
      * removed / unmatched: 0
    """
    back = F(0)
    if is_line:
        if line_result is None:
            return F(0)
        for p, s in fills:
            p, s = fr(p), fr(s)
            if fr(line_result) < p:
                back += s
            elif fr(line_result) > p:
                back -= s
            else:
                raise ValueError("tie")  # rule for result == line is not modelled
        return back if side == "BACK" else -back
    for p, s in fills:
        p, s = fr(p), fr(s)
        if market_type == "EACH_WAY":
            d = F(ew_divisor)
            place_odds = (p - 1) / d
            if result == "WINNER":
                back += s * (p - 1) + s * place_odds
            elif result == "PLACED":
                back += s * place_odds - s
            elif result == "LOSER":
                back -= 2 * s
        else:
            if result == "WINNER":
                back += s * (p / n_dead_heat - 1)
            elif result == "LOSER":
                back -= s
    return back if side == "BACK" else -back
