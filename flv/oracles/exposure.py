"""Brute-force worst-case exposure; independent of flumine.

A position is a dict:
  side, kind ("LIMIT" | "SP"), fills [(price, size)] (already matched), open (price, size) or None (may still
  fill fully at its limit or not at all), liability (SP orders), line (bool: struck at 2.0)
"""
import itertools


def _pl(side, price, size):
    """(profit if selection wins, profit if it loses) of a matched bet"""
    if side == "BACK":
        return size * (price - 1), -size
    return -size * (price - 1), size


def selection_worst(positions):
    """min over every subset of open orders of P&L if the selection wins / loses (minimised separately),
    plus the matched-only and unmatched-only parts"""
    mw = ml = 0.0
    opens = []
    sp_w = sp_l = 0.0
    for p in positions:
        if p["kind"] == "SP":
            if p["side"] == "BACK":
                sp_l -= p["liability"]
            else:
                sp_w -= p["liability"]
            continue
        for price, size in p["fills"]:
            w, l = _pl(p["side"], 2.0 if p.get("line") else price, size)
            mw += w
            ml += l
        if p.get("open"):
            price, size = p["open"]
            opens.append(_pl(p["side"], 2.0 if p.get("line") else price, size))
    best_w = best_l = 0.0
    first = True
    if len(opens) > 12:
        # enumeration is exponential; the two minima are taken separately over sums of independent terms, so the
        # minimum over all subsets equals the sum of the negative terms (identical to the enumeration below)
        best_w = sum(min(0.0, x[0]) for x in opens)
        best_l = sum(min(0.0, x[1]) for x in opens)
        opens = []
        first = False
    for r in range(len(opens) + 1 if first else 0):
        for S in itertools.combinations(opens, r):
            w = sum(x[0] for x in S)
            l = sum(x[1] for x in S)
            if first:
                best_w, best_l, first = w, l, False
            else:
                best_w = min(best_w, w)
                best_l = min(best_l, l)
    return {
        "matched_win": mw, "matched_lose": ml, "unmatched_win": best_w, "unmatched_lose": best_l,
        "win": mw + best_w + sp_w, "lose": ml + best_l + sp_l,
    }


def market_worst(per_runner, n_active, n_winners):
    """per_runner: list of (win, lose) for runners with positions; unbet active runners contribute (0, 0).
    min over every set of n_winners winning runners among n_active."""
    runners = list(per_runner) + [(0.0, 0.0)] * max(0, n_active - len(per_runner))
    n = len(runners)
    k = min(n_winners, n)
    best = None
    for W in itertools.combinations(range(n), k):
        Ws = set(W)
        v = sum(runners[i][0] if i in Ws else runners[i][1] for i in range(n))
        best = v if best is None else min(best, v)
    return best
