"""Exchange price ladders, built from the published increment tables with integer arithmetic in
hundredths.  Nothing here imports flumine.

Betfair classic: 1.01-2 by .01, 2-3 .02, 3-4 .05, 4-6 .1, 6-10 .2, 10-20 .5, 20-30 1, 30-50 2,
50-100 5, 100-1000 10  (350 ticks).
Betfair finest: 1.01-1000 by .01.
Betdaq: 1.01-3 by .01, 3-4 .05, 4-10 .1, 10-20 .5, 20-50 1, 50-200 2, 200-1000 5 (pinned from the
repository's documented BETDAQ_CUTOFFS; no offline source for the exchange's own table).
"""
from fractions import Fraction

_CLASSIC = ((101, 200, 1), (200, 300, 2), (300, 400, 5), (400, 600, 10), (600, 1000, 20),
            (1000, 2000, 50), (2000, 3000, 100), (3000, 5000, 200), (5000, 10000, 500),
            (10000, 100000, 1000))
_BETDAQ = ((101, 300, 1), (300, 400, 5), (400, 1000, 10), (1000, 2000, 50), (2000, 5000, 100),
           (5000, 20000, 200), (20000, 100000, 500))


def _build(table):
    out = []
    for lo, hi, step in table:
        c = lo
        while c < hi:
            out.append(c)
            c += step
    out.append(100000)
    return out


CLASSIC_C = _build(_CLASSIC)  # in hundredths
BETDAQ_C = _build(_BETDAQ)
FINEST_C = list(range(101, 100001))

CLASSIC = [c / 100 for c in CLASSIC_C]
BETDAQ = [c / 100 for c in BETDAQ_C]
FINEST = [c / 100 for c in FINEST_C]

CLASSIC_SET = set(CLASSIC_C)
BETDAQ_SET = set(BETDAQ_C)

assert len(CLASSIC) == 350, len(CLASSIC)


def line_ticks(lo, hi, interval):
    """line range ticks as Fractions: lo, lo+interval, ... <= hi"""
    lo, hi, interval = Fraction(lo), Fraction(hi), Fraction(interval)
    out = []
    x = lo
    while x <= hi:
        out.append(x)
        x += interval
    return out


def on_ladder_cents(price, cents_set):
    """price (float/int/str) lies exactly on the ladder given as a set of hundredths"""
    try:
        f = Fraction(str(price))
    except (ValueError, ZeroDivisionError):
        return False
    c = f * 100
    return c.denominator == 1 and int(c) in cents_set


def on_finest(price):
    try:
        f = Fraction(str(price)) * 100
    except (ValueError, ZeroDivisionError):
        return False
    return f.denominator == 1 and 101 <= int(f) <= 100000


def nearest_distance(x, ticks_c):
    """min |x - t| over ticks (exact Fraction), x given as Fraction"""
    import bisect

    xc = x * 100
    i = bisect.bisect_left(ticks_c, xc)
    best = None
    for j in (i - 1, i):
        if 0 <= j < len(ticks_c):
            d = abs(xc - ticks_c[j])
            if best is None or d < best:
                best = d
    return best / 100
