"""Synthetic Betfair stream data: market spec (plain JSON-able dict) -> list of `mcm` lines, exactly
the shape recorded data has (no `img`, book deltas with [price, 0] removals, cumulative `trd`).

Also keeps the *input ledger*: for each emitted update the publish time, the full book and the
cumulative traded ladder per runner, the definition - computed from the spec itself, never read
back from flumine.
"""
import copy
import json

from .oracles import ladder as L

BASE_PT = 1_700_000_000_000  # 2023-11-14T22:13:20Z


def iso(ms):
    import datetime

    d = datetime.datetime.utcfromtimestamp(ms / 1000.0)
    return d.strftime("%Y-%m-%dT%H:%M:%S.") + "%03dZ" % (ms % 1000)


def ladder_prices(spec):
    lad = spec.get("ladder", {"type": "CLASSIC"})
    if lad["type"] == "CLASSIC":
        return L.CLASSIC
    if lad["type"] == "FINEST":
        return L.FINEST
    if lad["type"] == "LINE_RANGE":
        return [float(x) for x in L.line_ticks(lad["min"], lad["max"], lad["interval"])]
    raise ValueError(lad)


def default_market(idx=0, n_runners=3, **kw):
    spec = {
        "id": "1.%09d" % (100000000 + idx),
        "event_id": "%d" % (30000000 + kw.pop("event", 0)),
        "market_type": "WIN",
        "betting_type": "ODDS",
        "number_of_winners": 1,
        "bsp_market": True,
        "persistence_enabled": True,
        "turn_in_play_enabled": True,
        "each_way_divisor": None,
        "ladder": {"type": "CLASSIC"},
        "runners": [{"id": 1001 + i, "hc": 0, "af": round(100.0 / n_runners, 2)} for i in range(n_runners)],
        "start_pt": BASE_PT,
        "market_time_offset_ms": 3_600_000,  # market_time = start_pt + offset
        "version": 1000,
        "bet_delay": 0,
        "steps": [],
    }
    spec.update(kw)
    return spec


class Update:
    """one emitted update of the ledger"""

    __slots__ = ("idx", "pt", "status", "inplay", "version", "bet_delay", "bsp_reconciled", "books",
                 "traded", "traded_delta", "runner_status", "runner_af", "runner_bsp", "kind", "line", "market_time")

    def as_dict(self):
        return {k: getattr(self, k) for k in self.__slots__ if k != "line"}


class Renderer:
    def __init__(self, spec):
        self.spec = spec
        self.prices = ladder_prices(spec)
        self.pt = spec["start_pt"]
        self.market_time_ms = spec["start_pt"] + spec["market_time_offset_ms"]
        rs = spec["runners"]
        self.defn = {
            "bspMarket": spec["bsp_market"],
            "turnInPlayEnabled": spec["turn_in_play_enabled"],
            "persistenceEnabled": spec["persistence_enabled"],
            "marketBaseRate": 5.0,
            "eventId": spec["event_id"],
            "eventTypeId": "7",
            "numberOfWinners": spec["number_of_winners"],
            "bettingType": spec["betting_type"],
            "marketType": spec["market_type"],
            "marketTime": iso(spec["start_pt"] + spec["market_time_offset_ms"]),
            "suspendTime": iso(spec["start_pt"] + spec["market_time_offset_ms"]),
            "bspReconciled": False,
            "complete": True,
            "inPlay": False,
            "crossMatching": False,
            "runnersVoidable": False,
            "numberOfActiveRunners": len(rs),
            "betDelay": spec.get("bet_delay", 0),
            "status": spec.get("initial_status", "OPEN"),
            "runners": [
                {"adjustmentFactor": r.get("af"), "status": "ACTIVE", "sortPriority": i + 1, "id": r["id"],
                 **({"hc": r["hc"]} if r.get("hc") else {})}
                for i, r in enumerate(rs)
            ],
            "regulators": ["MR_INT"],
            "countryCode": "GB",
            "discountAllowed": True,
            "timezone": "Europe/London",
            "openDate": iso(spec["start_pt"] + spec["market_time_offset_ms"]),
            "version": spec["version"],
            "name": "m",
            "eventName": "e",
        }
        if spec.get("each_way_divisor") is not None:
            self.defn["eachWayDivisor"] = spec["each_way_divisor"]
        lad = spec.get("ladder", {"type": "CLASSIC"})
        self.defn["priceLadderDefinition"] = {"type": lad["type"]}
        if lad["type"] == "LINE_RANGE":
            self.defn["lineMinUnit"] = lad["min"]
            self.defn["lineMaxUnit"] = lad["max"]
            self.defn["lineInterval"] = lad["interval"]
        n = len(rs)
        self.atb = [dict() for _ in range(n)]  # price -> size
        self.atl = [dict() for _ in range(n)]
        self.trd = [dict() for _ in range(n)]  # price -> cumulative size
        self.updates = []
        self.lines = []
        self.clk = 0

    # ---- helpers -------------------------------------------------------------------------
    def _price(self, tick):
        if isinstance(tick, float):
            return tick
        tick = max(0, min(len(self.prices) - 1, tick))
        return self.prices[tick]

    def _emit(self, kind, with_def, rcs, traded_delta):
        self.clk += 1
        mc = {"id": self.spec["id"]}
        if with_def:
            mc["marketDefinition"] = copy.deepcopy(self.defn)
        if rcs:
            mc["rc"] = rcs
        line = {"op": "mcm", "clk": str(self.clk), "pt": self.pt, "mc": [mc]}
        u = Update()
        u.idx = len(self.updates)
        u.pt = self.pt
        u.kind = kind
        u.status = self.defn["status"]
        u.inplay = self.defn["inPlay"]
        u.version = self.defn["version"]
        u.bet_delay = self.defn["betDelay"]
        u.bsp_reconciled = self.defn["bspReconciled"]
        u.market_time = self.market_time_ms
        u.books = [
            {"atb": sorted(self.atb[i].items(), reverse=True), "atl": sorted(self.atl[i].items())}
            for i in range(len(self.atb))
        ]
        u.traded = [dict(t) for t in self.trd]
        u.traded_delta = traded_delta
        u.runner_status = [r["status"] for r in self.defn["runners"]]
        u.runner_af = [r.get("adjustmentFactor") for r in self.defn["runners"]]
        u.runner_bsp = [r.get("bsp") for r in self.defn["runners"]]
        u.line = json.dumps(line)
        self.updates.append(u)
        self.lines.append(u.line)

    # ---- step application ----------------------------------------------------------------
    def first(self):
        self._emit("def", True, [], [dict() for _ in self.atb])

    def apply(self, step):
        self.pt += int(step.get("dt", 0))
        k = step["k"]
        n = len(self.atb)
        traded_delta = [dict() for _ in range(n)]
        rcs = []
        with_def = False
        if k == "book":
            for rc in step["rc"]:
                i = rc["r"]
                if i >= n:
                    continue
                out = {"id": self.spec["runners"][i]["id"]}
                if self.spec["runners"][i].get("hc"):
                    out["hc"] = self.spec["runners"][i]["hc"]
                for side, cur in (("atb", self.atb[i]), ("atl", self.atl[i])):
                    new = rc.get(side)
                    if new is None:
                        continue
                    newd = {}
                    for tick, size in new:
                        if size > 0:
                            newd[self._price(tick)] = round(size, 2)
                    delta = []
                    for p in cur:
                        if p not in newd:
                            delta.append([p, 0])
                    for p, s in newd.items():
                        if cur.get(p) != s:
                            delta.append([p, s])
                    cur.clear()
                    cur.update(newd)
                    if delta:
                        out[side] = delta
                trd = rc.get("trd")
                if trd or rc.get("trd_same"):
                    trd = trd or []
                    td = []
                    for tick, inc in trd:
                        if inc <= 0:
                            continue
                        p = self._price(tick)
                        self.trd[i][p] = round(self.trd[i].get(p, 0) + inc, 2)
                        traded_delta[i][p] = round(traded_delta[i].get(p, 0) + inc, 2)
                    for p in traded_delta[i]:
                        td.append([p, self.trd[i][p]])
                    for tick in rc.get("trd_same", ()):
                        p = self._price(tick)
                        if p in self.trd[i] and p not in traded_delta[i]:
                            td.append([p, self.trd[i][p]])  # re-sent, unchanged cumulative volume
                    if td:
                        out["trd"] = td
                        out["ltp"] = td[-1][0]
                        out["tv"] = round(sum(self.trd[i].values()), 2)
                if len(out) > 1 + (1 if "hc" in out else 0):
                    rcs.append(out)
            if not rcs and not step.get("force"):
                # an update with no change still carries a publish time (heartbeat-like rc)
                rcs = [{"id": self.spec["runners"][0]["id"], "ltp": self._price(step.get("ltp_tick", 50))}]
        elif k == "suspend":
            self.defn["status"] = "SUSPENDED"
            if step.get("bump", True):
                self.defn["version"] += 1
            with_def = True
        elif k == "open":
            self.defn["status"] = "OPEN"
            if step.get("bump", False):
                self.defn["version"] += 1
            with_def = True
        elif k == "inplay":
            self.defn["inPlay"] = True
            self.defn["status"] = step.get("status", "OPEN")
            if "bet_delay" in step:
                self.defn["betDelay"] = step["bet_delay"]
            if step.get("bump", True):
                self.defn["version"] += 1
            bsp = step.get("bsp")
            if bsp is not None and self.spec["bsp_market"]:
                self.defn["bspReconciled"] = True
                for i, r in enumerate(self.defn["runners"]):
                    v = bsp[i] if i < len(bsp) else None
                    if v is not None and r["status"] == "ACTIVE":
                        r["bsp"] = v
            # in-play transition clears non-persisted offers at the exchange; book carried by rc
            with_def = True
        elif k == "betdelay":
            self.defn["betDelay"] = step["bet_delay"]
            with_def = True
        elif k == "remove":
            i = step["r"]
            r = self.defn["runners"][i]
            if r["status"] == "ACTIVE":
                r["status"] = "REMOVED"
                if "af" in step:
                    r["adjustmentFactor"] = step["af"]
                r["removalDate"] = iso(self.pt)
                self.defn["numberOfActiveRunners"] = sum(
                    1 for x in self.defn["runners"] if x["status"] == "ACTIVE")
                self.defn["version"] += 1
                # the exchange clears the removed runner's book
                out = {"id": r["id"]}
                d = [[p, 0] for p in self.atb[i]]
                if d:
                    out["atb"] = d
                d = [[p, 0] for p in self.atl[i]]
                if d:
                    out["atl"] = d
                self.atb[i].clear()
                self.atl[i].clear()
                if len(out) > 1:
                    rcs.append(out)
            with_def = True
        elif k == "close":
            self.defn["status"] = "CLOSED"
            self.defn["inPlay"] = self.defn["inPlay"]
            self.defn["version"] += 1
            res = step.get("results", [])
            for i, r in enumerate(self.defn["runners"]):
                if r["status"] == "REMOVED":
                    continue
                r["status"] = res[i] if i < len(res) else "LOSER"
            self.defn["numberOfActiveRunners"] = 0
            if step.get("settled_time", True):
                self.defn["settledTime"] = iso(self.pt)
            with_def = True
        elif k == "reopen":
            # data for a closed market arrives again
            self.defn["status"] = step.get("status", "OPEN")
            self.defn["version"] += 1
            self.defn.pop("settledTime", None)
            for r in self.defn["runners"]:
                if r["status"] != "REMOVED":
                    r["status"] = "ACTIVE"
            self.defn["numberOfActiveRunners"] = sum(1 for x in self.defn["runners"] if x["status"] == "ACTIVE")
            with_def = True
        elif k == "retime":
            # the scheduled start is moved (race delayed / brought forward)
            self.market_time_ms = self.spec["start_pt"] + step["offset_ms"]
            self.defn["marketTime"] = iso(self.market_time_ms)
            self.defn["suspendTime"] = iso(self.market_time_ms)
            self.defn["version"] += 1
            with_def = True
        elif k == "def":
            self.defn.update(step.get("set", {}))
            with_def = True
        else:
            raise ValueError(k)
        self._emit(k, with_def, rcs, traded_delta)


def render(spec):
    """-> Renderer with .lines and .updates (first update = initial definition)"""
    r = Renderer(spec)
    r.first()
    for step in spec["steps"]:
        r.apply(step)
    return r


def write_market(spec, directory):
    import os

    r = render(spec)
    path = os.path.join(directory, spec["id"])
    with open(path, "w") as f:
        f.write("\n".join(r.lines) + "\n")
    return path, r
