"""Runs one scenario in a fresh interpreter with a shifted wall clock and prints the normalised ledgers.
usage: child_run.py <offset_seconds>   (scenario JSON on stdin; PYTHONHASHSEED set by the parent)"""
import json
import sys
import os

offset = float(sys.argv[1])
import time as _time
import datetime as _dt

_rt, _rtn = _time.time, _time.time_ns
_time.time = lambda: _rt() + offset
_time.time_ns = lambda: _rtn() + int(offset * 1e9)
_RealDT = _dt.datetime


class _ShiftedDT(_RealDT):
    @classmethod
    def utcnow(cls):
        return _RealDT.utcnow() + _dt.timedelta(seconds=offset)

    @classmethod
    def now(cls, tz=None):
        return _RealDT.now(tz) + _dt.timedelta(seconds=offset)


_dt.datetime = _ShiftedDT

HERE = os.path.dirname(os.path.dirname(os.path.abspath(__file__)))
sys.path.insert(0, HERE)
from flv import common

common.setup_path()
import logging

logging.disable(logging.CRITICAL)
from flv import simlab

simlab._REAL_DATETIME = _ShiftedDT
sc = json.load(sys.stdin)
with simlab.lab(sc, snapshots=False) as lb:
    lb.run()
    out = {"error": repr(lb.error) if lb.error else None,
           "ledgers": {s.name: simlab.ledger(lb, s.name) for s in lb.strategies},
           "seq": [(r["strategy"], r["market"], str(r["now"]), r["cb"]) for r in lb.log if r["cb"] in ("check_market_book", "process_closed_market")]}
print(json.dumps(out, default=str))
