"""Runs one scenario in a fresh interpreter with a shifted wall clock and prints the normalised ledgers.
usage: child_run.py <offset_seconds> [<seconds added per clock reading>]   (scenario JSON on stdin; PYTHONHASHSEED set by the parent)"""
import json
import sys
import os

offset = float(sys.argv[1])
# optional: a wall clock that RUNS - every reading of it is `step` seconds later than the previous one
step = float(sys.argv[2]) if len(sys.argv) > 2 else 0.0
import time as _time
import datetime as _dt

_rt, _rtn = _time.time, _time.time_ns
_drift = [0.0]


def _off():
    _drift[0] += step
    return offset + _drift[0]


_time.time = lambda: _rt() + _off()
_time.time_ns = lambda: _rtn() + int(_off() * 1e9)
_RealDT = _dt.datetime


class _ShiftedDT(_RealDT):
    @classmethod
    def utcnow(cls):
        return _RealDT.utcnow() + _dt.timedelta(seconds=_off())

    @classmethod
    def now(cls, tz=None):
        return _RealDT.now(tz) + _dt.timedelta(seconds=_off())


_dt.datetime = _ShiftedDT

HERE = os.path.dirname(os.path.dirname(os.path.abspath(__file__)))
sys.path.insert(0, HERE)
from flv import common

common.setup_path()
import logging

logging.disable(logging.CRITICAL)
from flv import simlab

simlab._REAL_DATETIME = _ShiftedDT
sc = json.load(sys.stdin)
with simlab.lab(sc, snapshots=False) as lb:
    lb.run()
    out = {"error": repr(lb.error) if lb.error else None,
           "ledgers": {s.name: simlab.ledger(lb, s.name) for s in lb.strategies},
           "seq": [(r["strategy"], r["market"], str(r["now"]), r["cb"]) for r in lb.log if r["cb"] in ("check_market_book", "process_closed_market")]}
print(json.dumps(out, default=str))
