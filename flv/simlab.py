"""E1 whole-run simulation lab and E2s stepped simulation driver.

A *scenario* is a plain dict:

  {"config": {...flumine.config overrides...},
   "clients": [{"bpe": True, "full_match": False, "commission": 0.05, "tx_limit": 5000,
                "min_bet_validation": True, "currency": "GBP"}],
   "markets": [market spec (flv.world)],
   "event_processing": False, "event_groups": {}, "listener_kwargs": {},
   "strategies": [{"name": "A", "client": 0, "markets": [0, 1] | None (= all),
                   "max_order_exposure": .., "max_selection_exposure": .., "max_market_exposure": ..,
                   "max_trade_count": .., "max_live_trade_count": .., "multi_order_trades": ..,
                   "script": [{"m": market idx, "at": delivered-update index, "ops": [op, ...]}],
                   "fault": {"cb": callback name, "n": invocation index, "exc": "flumine"|"plain"}}]}

Everything the framework sees is the real code; the lab only renders files, registers scripted
strategies, and records snapshots.
"""
import contextlib
import datetime as _dt
import json
import os
import shutil
import tempfile

from . import world

_REAL_DATETIME = _dt.datetime


def _tmp_root():
    for d in ("/dev/shm", os.environ.get("TMPDIR") or "/tmp"):
        if os.path.isdir(d) and os.access(d, os.W_OK):
            return d
    return tempfile.gettempdir()


_CONFIG_SNAPSHOT = None


def _config_snapshot():
    global _CONFIG_SNAPSHOT
    from flumine import config

    if _CONFIG_SNAPSHOT is None:
        _CONFIG_SNAPSHOT = {
            k: getattr(config, k)
            for k in dir(config)
            if not k.startswith("_") and isinstance(getattr(config, k), (int, float, str, bool, type(None)))
        }
    return _CONFIG_SNAPSHOT


@contextlib.contextmanager
def clean_config(overrides=None):
    """flumine.config and datetime.datetime are restored around every case."""
    from flumine import config

    snap = dict(_config_snapshot())
    for k, v in snap.items():
        setattr(config, k, v)
    for k, v in (overrides or {}).items():
        setattr(config, k, v)
    try:
        yield
    finally:
        for k, v in snap.items():
            setattr(config, k, v)
        _dt.datetime = _REAL_DATETIME


# ------------------------------------------------------------------------------------------
# snapshots
# ------------------------------------------------------------------------------------------


def snap_order(o):
    s = o.simulated
    ot = o.order_type
    return {
        "oid": id(o),
        "id": o.id,
        "bet_id": o.bet_id,
        "sel": o.selection_id,
        "hc": o.handicap,
        "side": o.side,
        "type": ot.ORDER_TYPE.name,
        "price": getattr(ot, "price", None),
        "size": getattr(ot, "size", None),
        "liability": getattr(ot, "liability", None),
        "pers": getattr(ot, "persistence_type", None),
        "tif": getattr(ot, "time_in_force", None),
        "min_fill": getattr(ot, "min_fill_size", None),
        "status": o.status.name if o.status else None,
        "complete": o.complete,
        "status_log": [x.name for x in o.status_log],
        "sm": s.size_matched,
        "apm": s.average_price_matched,
        "sr": s.size_remaining,
        "sc": s.size_cancelled,
        "sl": s.size_lapsed,
        "sv": s.size_voided,
        "matched": [list(m) for m in s.matched],
        "piq": s._piq,
        "bsp_rec": s._bsp_reconciled,
        "created": o.date_time_created,
        "placed": o.responses.date_time_placed,
        "completed_at": o.date_time_execution_complete,
        "status_update": o.date_time_status_update,
        "trade": o.trade.id,
        "trade_status": o.trade.status.name,
        "strategy": o.trade.strategy.name,
        "client": o.client.username if o.client else None,
        "update_data": dict(o.update_data),
        "violation_msg": o.violation_msg,
        "runner_status": o.runner_status,
        "profit": None,
    }


class OpResult:
    __slots__ = ("op", "result", "error", "order", "m", "idx", "now", "target", "cross")


class ScriptStrategy:
    """Mixin body; the real class is created by make_strategy_class() after flumine is importable."""


def make_strategy_class():
    from flumine import BaseStrategy
    from flumine.exceptions import FlumineException
    from flumine.order.trade import Trade
    from flumine.order.order import OrderStatus
    from flumine.order.ordertype import LimitOrder, LimitOnCloseOrder, MarketOnCloseOrder
    from betfairlightweight.resources.bettingresources import LineRangeInfo

    class _Script(BaseStrategy):
        def __init__(self, lab, sspec, **kw):
            super().__init__(**kw)
            self.lab = lab
            self.sspec = sspec
            self.script = {}
            for ent in sspec.get("script", []):
                self.script.setdefault((ent.get("m", 0), ent["at"]), []).extend(ent["ops"])
            self.counters = {}  # market_id -> delivered-update count
            self.my_orders = []  # creation order
            self.my_trades = []
            self.op_results = []
            self.cb_counts = {}
            self.fault = sspec.get("fault")

        # ---- fault injection ---------------------------------------------------------
        def _maybe_fault(self, cb):
            n = self.cb_counts.get(cb, 0)
            self.cb_counts[cb] = n + 1
            f = self.fault
            if f and f["cb"] == cb and f["n"] == n:
                self.lab.fault_fired = True
                if f.get("in_real_time"):
                    # the strategy's own code fails while it looks at the real clock through the documented helper
                    with self.lab.fw.simulated_datetime.real_time():
                        raise RuntimeError("injected inside real_time()")
                if f.get("exc") == "flumine":
                    raise FlumineException("injected")
                raise RuntimeError("injected")

        # ---- callbacks ---------------------------------------------------------------
        def process_new_market(self, market, market_book):
            self.lab.record("process_new_market", self, market, market_book)
            self._maybe_fault("process_new_market")

        def check_market_book(self, market, market_book):
            self.lab.record("check_market_book", self, market, market_book)
            self._maybe_fault("check_market_book")
            return True

        def process_market_book(self, market, market_book):
            idx = self.counters.get(market.market_id, 0)
            self.counters[market.market_id] = idx + 1
            self._maybe_fault("process_market_book")
            mi = self.lab.market_index.get(market.market_id, 0)
            ops = self.script.get((mi, idx))
            if ops:
                self.run_ops(market, market_book, ops, mi, idx)
            self.lab.record("process_market_book", self, market, market_book, idx=idx)

        def process_orders(self, market, orders):
            # replacement orders are created by the execution layer: the strategy learns about them here and may
            # act on them like on any of its orders
            for o in orders:
                if not any(o is x for x in self.my_orders):
                    self.my_orders.append(o)
            self.lab.record("process_orders", self, market, market.market_book)
            self._maybe_fault("process_orders")

        def process_closed_market(self, market, market_book):
            idx = self.counters.get(market.market_id, 0)
            self.counters[market.market_id] = idx + 1
            self.lab.record("process_closed_market", self, market, market_book, idx=idx)
            self._maybe_fault("process_closed_market")

        # ---- script interpreter ------------------------------------------------------
        def _order_ref(self, k, market=None):
            # a strategy acts on a market's orders through that market only
            pool = [o for o in self.my_orders if market is None or o.market_id == market.market_id]
            if not pool:
                return None
            return pool[k % len(pool)]

        def build_order(self, market, op):
            spec = self.lab.market_specs[self.lab.market_index[market.market_id]]
            runners = spec["runners"]
            r = runners[op.get("r", 0) % len(runners)]
            tr = op.get("trade", "new")
            if tr != "new" and self.my_trades:
                trade = self.my_trades[tr % len(self.my_trades)]
                if (trade.market_id, trade.selection_id, trade.handicap) != (market.market_id, r["id"], r.get("hc", 0)):
                    trade = None
                elif trade.status.name == "COMPLETE" and not op.get("reuse_completed_trade"):
                    # adding an order to a trade that has already completed is only sanctioned through the
                    # pending_orders flag (outside the properties): a new trade is used instead
                    trade = None
            else:
                trade = None
            if trade is None:
                trade = Trade(
                    market.market_id, r["id"], r.get("hc", 0), self,
                    place_reset_seconds=op.get("place_reset_seconds", 0.0),
                    reset_seconds=op.get("reset_seconds", 0.0),
                )
                self.my_trades.append(trade)
            prices = self.lab.prices[market.market_id]
            lad = spec.get("ladder", {"type": "CLASSIC"})
            if "price" in op:
                price = op["price"]
            else:
                price = prices[max(0, min(len(prices) - 1, op.get("tick", 50)))]
            typ = op.get("type", "LIMIT")
            if typ == "LIMIT":
                lri = None
                if lad["type"] == "LINE_RANGE":
                    lri = LineRangeInfo(maxUnitValue=lad["max"], minUnitValue=lad["min"],
                                        interval=lad["interval"], marketUnit="runs")
                ot = LimitOrder(
                    price=price, size=op.get("size", 2.0), persistence_type=op.get("pers", "LAPSE"),
                    time_in_force=op.get("tif"), min_fill_size=op.get("min_fill"),
                    price_ladder_definition=lad["type"], line_range_info=lri,
                )
            elif typ == "LOC":
                ot = LimitOnCloseOrder(liability=op.get("liability", 10.0), price=price)
            else:
                ot = MarketOnCloseOrder(liability=op.get("liability", 10.0))
            order = trade.create_order(op.get("side", "BACK"), ot)
            self.my_orders.append(order)
            return order

        def run_ops(self, market, market_book, ops, mi, idx, transaction=None, cross=False):
            for op in ops:
                if op["op"] == "on":
                    # requests on ANOTHER market of the framework, issued while this market's update is processed
                    # (event-grouped runs): results are recorded against the target market and its latest update
                    tm = op["tm"]
                    m2 = self.lab.fw.markets.markets.get(self.lab.market_specs[tm]["id"])
                    if m2 is None or m2.market_book is None:
                        continue
                    self.run_ops(m2, m2.market_book, op["ops"], tm, self.counters.get(m2.market_id, 0) - 1,
                                 cross=(m2 is not market))
                    continue
                res = OpResult()
                res.op = op
                res.m = mi
                res.idx = idx
                res.cross = cross
                res.now = _dt.datetime.utcnow()
                res.result = None
                res.error = None
                res.order = None
                res.target = None
                kind = op["op"]
                t = transaction or market
                try:
                    if kind == "place":
                        order = op.get("_prebuilt") or self.build_order(market, op)
                        res.order = order
                        mv = op.get("mv")
                        if mv == "cur":
                            mv = market_book.version
                        elif mv == "stale":
                            mv = market_book.version - 1
                        kw = {}
                        if op.get("force"):
                            kw["force"] = True
                        client = self.lab.clients[self.sspec.get("client", 0)]
                        if transaction is None:
                            res.result = market.place_order(order, market_version=mv, client=client, **kw)
                        else:
                            res.result = transaction.place_order(order, market_version=mv, **kw)
                    elif kind == "txn":
                        client = self.lab.clients[self.sspec.get("client", 0)]
                        with market.transaction(client=client) as txn:
                            self.run_ops(market, market_book, op["ops"], mi, idx, transaction=txn, cross=cross)
                        res.result = True
                    elif kind == "execute" and transaction is not None:
                        res.result = transaction.execute()
                    elif kind == "raise":
                        # a bug in the strategy's own code (possibly inside a `with market.transaction()` block)
                        self.lab.fault_fired = True
                        raise RuntimeError("injected inside the callback")
                    elif kind == "line_result":
                        market.context["line_range_result"] = op["value"]
                        res.result = "set"
                    else:
                        order = self._order_ref(op.get("o", 0), market)
                        res.target = order
                        if order is None:
                            res.result = "no-order"
                        elif kind == "cancel":
                            red = op.get("red")
                            if red is not None:
                                # fraction of the order's current remainder, 2dp; may exceed it
                                red = round(max(order.size_remaining, 0.01) * red, 2) or 0.01
                            kw = {"force": True} if op.get("force") else {}
                            res.result = t.cancel_order(order, size_reduction=red, **kw)
                        elif kind == "update":
                            kw = {"force": True} if op.get("force") else {}
                            res.result = t.update_order(order, new_persistence_type=op.get("pers", "PERSIST"), **kw)
                        elif kind == "replace":
                            prices = self.lab.prices[market.market_id]
                            cur = getattr(order.order_type, "price", None)
                            if "tick" in op:
                                new = prices[max(0, min(len(prices) - 1, op["tick"]))]
                            else:
                                try:
                                    i = prices.index(cur)
                                except ValueError:
                                    i = 50
                                new = prices[max(0, min(len(prices) - 1, i + op.get("ticks", 1)))]
                            kw = {"force": True} if op.get("force") else {}
                            res.result = t.replace_order(order, new_price=new, **kw)
                        else:
                            res.result = "unknown-op"
                except FlumineException as e:  # OrderError / OrderUpdateError / ControlError
                    res.error = "%s: %s" % (type(e).__name__, e)
                self.op_results.append(res)
                self.lab.op_log.append(res)

    return _Script


def make_recording_middleware(lab_, fault=None):
    """registered after SimulatedMiddleware: records that it ran (before the strategies) and optionally raises"""
    from flumine.markets.middleware import Middleware
    from flumine.exceptions import FlumineException

    class Recording(Middleware):
        def __init__(self):
            self.n = 0

        def __call__(self, market):
            n = self.n
            self.n += 1
            lab_.log.append({"cb": "middleware", "strategy": None, "market": market.market_id, "idx": n,
                             "now": _dt.datetime.utcnow(), "pt": market.market_book.publish_time,
                             "status": market.market_book.status, "orders": []})
            if fault and fault["n"] == n:
                lab_.fault_fired = True
                if fault.get("exc") == "flumine":
                    raise FlumineException("injected")
                raise RuntimeError("injected")

    return Recording()


def ledger(lb, name):
    """normalised per-strategy result ledger (ids excluded)"""
    st = next(s for s in lb.strategies if s.name == name)
    out = []
    for o in st.my_orders:
        s = o.simulated
        out.append({
            "sel": o.selection_id, "side": o.side, "type": o.order_type.ORDER_TYPE.name,
            "price": getattr(o.order_type, "price", None), "size": getattr(o.order_type, "size", None),
            "liability": getattr(o.order_type, "liability", None),
            "status_log": [x.name for x in o.status_log], "matched": [list(m) for m in s.matched],
            "sm": s.size_matched, "apm": s.average_price_matched, "sc": s.size_cancelled, "sl": s.size_lapsed,
            "sv": s.size_voided, "placed": str(o.responses.date_time_placed), "created": str(o.date_time_created),
            "completed": str(o.date_time_execution_complete), "profit": s.profit, "runner_status": o.runner_status,
        })
    ops = [(r.op.get("op"), r.result if not hasattr(r.result, "name") else str(r.result), bool(r.error)) for r in st.op_results]
    return {"orders": out, "ops": ops}


# ------------------------------------------------------------------------------------------
# the lab
# ------------------------------------------------------------------------------------------


class Lab:
    """Holds one constructed framework + scripted strategies for a scenario."""

    def __init__(self, scenario, snapshots=True, snapshot_cbs=None, stepped=False, capture_books=False):
        from flumine import FlumineSimulation, clients
        from flumine.order.orderpackage import OrderPackageType  # noqa

        self.scenario = scenario
        self.snapshots = snapshots
        self.snapshot_cbs = snapshot_cbs  # None = all
        self.capture_books = capture_books
        self.datetime_restored = None
        self.log = []  # callback records
        self.op_log = []
        self.packages = []  # (now, package_type name, [order ids], market_version)
        self.fault_fired = False
        self.market_specs = scenario["markets"]
        self.market_index = {m["id"]: i for i, m in enumerate(self.market_specs)}
        self.prices = {m["id"]: world.ladder_prices(m) for m in self.market_specs}
        self.stepped = stepped
        self.tmpdir = tempfile.mkdtemp(prefix="flv_", dir=_tmp_root())
        self.renderers = []
        self.paths = []
        for m in self.market_specs:
            if stepped:
                self.renderers.append(world.render(m) if m.get("steps") is not None else None)
                self.paths.append(None)
            else:
                p, r = world.write_market(m, self.tmpdir)
                self.paths.append(p)
                self.renderers.append(r)
        if scenario.get("combined_file") and not stepped and len(self.market_specs) > 1:
            # one recording holding all the markets (an event-level file): messages of the same publish time are
            # merged into one message with several market changes, the rest interleaved chronologically
            msgs = {}
            for r in self.renderers:
                for line in r.lines:
                    d = json.loads(line)
                    msgs.setdefault(d["pt"], []).append(d)
            path = os.path.join(self.tmpdir, "1.999999999")
            with open(path, "w") as f:
                for n_, pt in enumerate(sorted(msgs)):
                    ds = msgs[pt]
                    f.write(json.dumps({"op": "mcm", "clk": str(n_), "pt": pt, "mc": [mc for d in ds for mc in d["mc"]]}) + "\n")
            self.paths = [path]

        self.clients = []
        for i, c in enumerate(scenario.get("clients") or [{}]):
            cls = clients.SimulatedClient
            if c.get("currency"):
                cls = type("SimClient_" + c["currency"], (clients.SimulatedClient,), {"CURRENCY_CODE": c["currency"]})
            cl = cls(
                username="client%d" % i,
                transaction_limit=c.get("tx_limit", 5000),
                commission_base=c.get("commission", 0.05),
                best_price_execution=c.get("bpe", True),
                min_bet_validation=c.get("min_bet_validation", True),
                simulated_full_match=c.get("full_match", False),
            )
            self.clients.append(cl)
        if scenario.get("subclassed_sim_middleware"):
            # a user's customised SimulatedMiddleware registered before the (simulated) client is added: it must stay
            # the only simulated matching engine of the framework
            from flumine.markets.middleware import SimulatedMiddleware

            class CustomSimulatedMiddleware(SimulatedMiddleware):
                pass

            self.fw = FlumineSimulation()
            self.fw.add_market_middleware(CustomSimulatedMiddleware())
            self.fw.add_client(self.clients[0])
        else:
            self.fw = FlumineSimulation(client=self.clients[0])
        for cl in self.clients[1:]:
            self.fw.add_client(cl)

        # capture packages (wrapping inside the checker process only)
        orig_pop = self.fw.process_order_package

        def capture(pkg, _orig=orig_pop):
            self.packages.append(pkg)
            return _orig(pkg)

        self.fw.process_order_package = capture

        # ... and their execution (what the simulated exchange actually receives)
        self.executed = []
        for ex_ in {id(cl.execution): cl.execution for cl in self.clients if getattr(cl, "execution", None) is not None}.values():
            def run_pkg(pkg, _orig=ex_.handler):
                self.executed.append(pkg)
                return _orig(pkg)

            ex_.handler = run_pkg

        # capture logging events synchronously (again only inside the checker process)
        self.events = []
        orig_log = self.fw.log_control

        def log_capture(event, _orig=orig_log):
            self.events.append(event)
            return _orig(event)

        self.fw.log_control = log_capture

        if scenario.get("record_mw"):
            self.fw.add_market_middleware(make_recording_middleware(self, scenario.get("mw_fault")))

        Script = make_strategy_class()
        self.strategies = []
        for s in scenario.get("strategies", []):
            ms = s.get("markets")
            paths = [self.paths[i] for i in (ms if ms is not None else range(len(self.paths)))] if len(self.paths) == len(self.market_specs) else list(self.paths)
            mf = {"markets": paths}
            if scenario.get("event_processing"):
                mf["event_processing"] = True
                if scenario.get("event_groups"):
                    mf["event_groups"] = dict(scenario["event_groups"])
            lk_ = s.get("listener_kwargs", scenario.get("listener_kwargs"))  # per-strategy override
            if lk_:
                mf["listener_kwargs"] = dict(lk_)
            kw = {}
            for k in ("max_order_exposure", "max_selection_exposure", "max_market_exposure", "max_trade_count",
                      "max_live_trade_count", "multi_order_trades"):
                if k in s:
                    kw[k] = s[k]
            if s.get("empty_filter"):
                mf = {}
            st = Script(self, s, market_filter=mf if (not stepped or s.get("empty_filter")) else {"markets": []}, name=s.get("name"), **kw)
            self.strategies.append(st)
            if not stepped:
                self.fw.add_strategy(st)
            else:
                self.fw.strategies(st, self.fw.clients, self.fw)
        self.error = None

    # -- recording -------------------------------------------------------------------------
    def record(self, cb, strategy, market, market_book, idx=None):
        if self.snapshot_cbs is not None and cb not in self.snapshot_cbs:
            return
        rec = {
            "cb": cb,
            "strategy": strategy.name,
            "market": market.market_id,
            "idx": idx,
            "now": _dt.datetime.utcnow(),
            "pt": getattr(market_book, "publish_time", None),
            "status": getattr(market_book, "status", None),
            "market_closed": market.closed,
            "cleared_flags": (len(market.orders_cleared), len(market.market_cleared)),
            "cleared_flags_aliased": market.orders_cleared is market.market_cleared,
            "book_is": market_book,
            # the per-runner matching state the simulated middleware exposes for this market (objects kept alive)
            "sim_state": list((market.context.get("simulated") or {}).values()) if hasattr(market, "context") else [],
        }
        if self.snapshots:
            rec["orders"] = [snap_order(o) for o in market.blotter]
        if self.capture_books and cb in ("check_market_book", "process_closed_market"):
            rec["book"] = [
                (r.selection_id, r.status, [(x["price"], x["size"]) for x in r.ex.available_to_back],
                 [(x["price"], x["size"]) for x in r.ex.available_to_lay],
                 sorted((x["price"], x["size"]) for x in r.ex.traded_volume))
                for r in market_book.runners
            ]
            rec["inplay"] = market_book.inplay
            rec["version"] = market_book.version
        self.log.append(rec)

    # -- whole run ---------------------------------------------------------------------------
    def run(self):
        try:
            self.fw.run()
        except BaseException as e:  # recorded; the caller decides what it means
            self.error = e
        self.datetime_restored = _dt.datetime is _REAL_DATETIME
        return self

    def cleanup(self):
        shutil.rmtree(self.tmpdir, ignore_errors=True)
        _dt.datetime = _REAL_DATETIME

    # convenient views
    def all_orders(self):
        out = []
        for m in self.fw.markets:
            out.extend(list(m.blotter))
        return out


@contextlib.contextmanager
def lab(scenario, **kw):
    with clean_config(scenario.get("config")):
        lb = Lab(scenario, **kw)
        try:
            yield lb
        finally:
            lb.cleanup()


def run_scenario(scenario, **kw):
    """Runs the whole scenario through FlumineSimulation.run(); returns the Lab (files removed)."""
    with lab(scenario, **kw) as lb:
        lb.run()
    return lb


# ------------------------------------------------------------------------------------------
# E2s stepper
# ------------------------------------------------------------------------------------------


class Stepper:
    """Real FlumineSimulation fed one stream message at a time (body of
    FlumineHistoricalGeneratorStream._read_loop + FlumineSimulation._process_market_books)."""

    def __init__(self, scenario, snapshots=False, snapshot_cbs=None):
        from flumine.streams.historicalstream import HistoricListener
        from flumine.events import events

        self._events = events
        self._cfg = clean_config(scenario.get("config"))
        self._cfg.__enter__()
        self.lab = Lab(scenario, snapshots=snapshots, snapshot_cbs=snapshot_cbs, stepped=True)
        self.fw = self.lab.fw
        self.listeners = []
        self.uids = []
        self.renderers = []
        for i, m in enumerate(scenario["markets"]):
            uid = (i + 1) * 10000
            lst = HistoricListener(max_latency=None, update_clk=False, **(scenario.get("listener_kwargs") or {}))
            lst.register_stream(uid, "marketSubscription")
            self.listeners.append(lst)
            self.uids.append(uid)
            r = world.Renderer(m)
            self.renderers.append(r)
            for st in self.lab.strategies:
                ms = st.sspec.get("markets")
                if ms is None or i in ms:
                    st.historic_stream_ids.add(uid)
        self.fw.__enter__()
        self.fw.simulated_datetime.__enter__()
        self.closed = False
        self.started = [False] * len(self.renderers)

    def feed_line(self, mi, line):
        lst = self.listeners[mi]
        if lst.on_data(line):
            books = [c.create_resource(self.uids[mi], snap=True) for c in lst.stream._caches.values() if c.active]
            self.fw._process_market_books(self._events.MarketBookEvent(books))
            return True
        return False

    def step(self, mi, step=None):
        """apply one world step (None = the initial definition) to market mi and feed it"""
        r = self.renderers[mi]
        if not self.started[mi]:
            r.first()
            self.started[mi] = True
            self.feed_line(mi, r.lines[-1])
            if step is None:
                return r.updates[-1]
        if step is not None:
            r.apply(step)
            self.feed_line(mi, r.lines[-1])
        return r.updates[-1]

    def market(self, mi=0):
        return self.fw.markets.markets.get(self.lab.market_specs[mi]["id"])

    def close(self):
        if self.closed:
            return
        self.closed = True
        try:
            self.fw.simulated_datetime.__exit__(None, None, None)
            self.fw.__exit__(None, None, None)
        finally:
            self.lab.cleanup()
            self._cfg.__exit__(None, None, None)
