"""E2l - a real live `Flumine` instance against an exchange double.

Real: Flumine, BetfairClient, BetfairExecution, betfairlightweight's request/response (de)serialisation
(APIClient.betting.* -> JSON-RPC -> resources.*), betfairlightweight's order-stream cache (StreamListener ->
OrderStream -> OrderBookCache -> CurrentOrders) and flumine's process_current_orders.
Substituted: the network (a fake requests session answering JSON-RPC from the double's bet table; `ocm` stream
messages produced by the double) and the thread scheduler (submitted execution tasks are queued and run when the
caller says so; inside an API call - after the exchange applied the request, before the response returns - the
caller may deliver stream updates: the "handler granularity" interleaving the properties name).
"""
import datetime as dt
import json
import types

import requests

from . import simlab, world


def iso(ms):
    return world.iso(ms)


class Bet:
    __slots__ = ("bet_id", "market_id", "sel", "hc", "side", "ot", "price", "size", "pers", "ref", "sref", "sm", "avp", "sr", "sc",
                 "sl", "sv", "status", "placed", "liability", "dirty", "hist")

    def view(self):
        return {"bet_id": self.bet_id, "sm": self.sm, "sr": self.sr, "sc": self.sc, "sl": self.sl, "sv": self.sv, "status": self.status,
                "price": self.price, "size": self.size, "ref": self.ref}


class Exchange:
    """bet table + JSON-RPC answers + order-stream messages"""

    def __init__(self, stream_uid=7):
        self.bets = {}
        self.next_id = 1000
        self.pt = world.BASE_PT
        self.clk = 0
        self.stream_uid = stream_uid
        self.calls = []  # (method, params) received
        self.plan = []  # per-call plan consumed in order: dict(transport=None|kind, outcomes=[...], hook=callable)
        self.sref = "h"
        self.instructions_received = {"place": 0, "replace": 0, "cancel": 0, "update": 0}
        self.failed_reports = 0
        self.call_failed = []  # failed (cancel / update / replace-cancel) reports per applied call
        self.dedupe = {}
        self.dedupe_failed = {}
        self.messages = []  # every stream message produced (for stale / duplicate delivery)

    # ---- bet table -------------------------------------------------------------------------
    def tick(self, ms=100):
        self.pt += ms
        return self.pt

    def new_bet(self, market_id, instr):
        b = Bet()
        b.bet_id = str(self.next_id)
        self.next_id += 1
        b.market_id = market_id
        b.sel = instr["selectionId"]
        b.hc = instr.get("handicap") or 0
        b.side = instr["side"]
        b.ot = instr["orderType"]
        b.ref = instr.get("customerOrderRef")
        b.sref = self.sref
        b.liability = None
        if b.ot == "LIMIT":
            lo = instr["limitOrder"]
            b.price, b.size, b.pers = lo["price"], lo["size"], lo.get("persistenceType") or "LAPSE"
        elif b.ot == "LIMIT_ON_CLOSE":
            b.price, b.size, b.pers = instr["limitOnCloseOrder"]["price"], 0.0, None
            b.liability = instr["limitOnCloseOrder"]["liability"]
        else:
            b.price, b.size, b.pers = 0.0, 0.0, None
            b.liability = instr["marketOnCloseOrder"]["liability"]
        b.sm, b.avp, b.sc, b.sl, b.sv = 0.0, 0.0, 0.0, 0.0, 0.0
        b.sr = b.size
        b.status = "EXECUTABLE"
        b.placed = self.pt
        b.dirty = True
        b.hist = []  # (event, amount, remaining afterwards)
        self.bets[b.bet_id] = b
        return b

    def fill(self, bet_id, size=None):
        b = self.bets[bet_id]
        if b.status != "EXECUTABLE":
            return False
        size = b.sr if size is None else min(size, b.sr)
        if size <= 0:
            return False
        tot = b.sm + size
        b.avp = round((b.avp * b.sm + b.price * size) / tot, 2)
        b.sm = round(tot, 2)
        b.sr = round(b.sr - size, 2)
        if b.sr == 0:
            b.status = "EXECUTION_COMPLETE"
        b.dirty = True
        return True

    def lapse(self, bet_id):
        b = self.bets[bet_id]
        if b.status != "EXECUTABLE":
            return False
        b.sl = round(b.sl + b.sr, 2)
        b.sr = 0.0
        b.status = "EXECUTION_COMPLETE"
        b.dirty = True
        return True

    # ---- JSON-RPC --------------------------------------------------------------------------
    @staticmethod
    def _echo(instr):
        out = {}
        for k, v in instr.items():
            if isinstance(v, dict):
                v = {a: b for a, b in v.items() if b is not None}
            if v is not None:
                out[k] = v
        return out

    def handle(self, method, params, outcomes):
        """apply a request; outcomes: per instruction SUCCESS | FAILURE:<code> | TIMEOUT (None = what the exchange
        would naturally answer)"""
        name = method.split("/")[-1]
        mid = params["marketId"]
        reports = []
        failed_before = self.failed_reports
        # customerRef de-duplicates re-submissions: the exchange answers a repeated request with the first result
        cref = params.get("customerRef")
        if cref and (name, cref) in self.dedupe:
            self.call_failed.append(self.dedupe_failed[(name, cref)])
            return json.loads(json.dumps(self.dedupe[(name, cref)]))

        def consistent(bet, oc_):
            # a forced BET_TAKEN_OR_LAPSED answer means exactly that at the exchange
            if oc_ and oc_.endswith("BET_TAKEN_OR_LAPSED") and bet is not None and bet.status == "EXECUTABLE":
                self.lapse(bet.bet_id)
        ins = params["instructions"]
        nat = lambda i: (outcomes[i] if outcomes and i < len(outcomes) and outcomes[i] else None)
        if name == "placeOrders":
            self.instructions_received["place"] += len(ins)
            for i, instr in enumerate(ins):
                oc = nat(i) or "SUCCESS"
                rep = {"instruction": self._echo(instr)}
                if oc == "SUCCESS":
                    b = self.new_bet(mid, instr)
                    if params.get("async"):
                        rep.update(status="SUCCESS", orderStatus="PENDING")
                    else:
                        rep.update(status="SUCCESS", betId=b.bet_id, placedDate=iso(self.pt), averagePriceMatched=0.0, sizeMatched=0.0,
                                   orderStatus="EXECUTABLE")
                elif oc.startswith("SUCCESS_MATCHED"):
                    b = self.new_bet(mid, instr)
                    self.fill(b.bet_id)
                    rep.update(status="SUCCESS", betId=b.bet_id, placedDate=iso(self.pt), averagePriceMatched=b.avp, sizeMatched=b.sm,
                               orderStatus="EXECUTION_COMPLETE")
                elif oc == "SUCCESS_EXPIRED":
                    b = self.new_bet(mid, instr)
                    b.sc, b.sr, b.status = b.sr, 0.0, "EXECUTION_COMPLETE"
                    rep.update(status="SUCCESS", betId=b.bet_id, placedDate=iso(self.pt), averagePriceMatched=0.0, sizeMatched=0.0,
                               orderStatus="EXPIRED")
                elif oc.startswith("TIMEOUT"):
                    if oc == "TIMEOUT_ACCEPTED":
                        self.new_bet(mid, instr)
                    rep.update(status="TIMEOUT")
                else:
                    rep.update(status="FAILURE", errorCode=oc.split(":")[1] if ":" in oc else "ERROR_IN_ORDER")
                reports.append(rep)
        elif name == "cancelOrders":
            self.instructions_received["cancel"] += len(ins)
            for i, instr in enumerate(ins):
                b = self.bets.get(instr["betId"])
                rep = {"instruction": {k: v for k, v in instr.items() if v is not None}}
                oc = nat(i)
                consistent(b, oc)
                if oc is None:
                    oc = "SUCCESS" if (b and b.status == "EXECUTABLE" and b.ot == "LIMIT") else "FAILURE:BET_TAKEN_OR_LAPSED"
                    if b and b.status == "EXECUTABLE" and b.ot != "LIMIT":
                        oc = "FAILURE:BET_ACTION_ERROR"
                if oc == "SUCCESS" and b and b.status == "EXECUTABLE":
                    red = instr.get("sizeReduction")
                    c = b.sr if not red else min(red, b.sr)
                    b.sc = round(b.sc + c, 2)
                    b.sr = round(b.sr - c, 2)
                    if b.sr == 0:
                        b.status = "EXECUTION_COMPLETE"
                    b.dirty = True
                    b.hist.append(("partial-cancel" if red else "cancel", c, b.sr))
                    rep.update(status="SUCCESS", sizeCancelled=c, cancelledDate=iso(self.pt))
                elif oc.startswith("TIMEOUT"):
                    rep.update(status="TIMEOUT")
                else:
                    code = oc.split(":")[1] if ":" in oc else "BET_TAKEN_OR_LAPSED"
                    rep.update(status="FAILURE", errorCode=code)
                    self.failed_reports += 1
                reports.append(rep)
        elif name == "updateOrders":
            self.instructions_received["update"] += len(ins)
            for i, instr in enumerate(ins):
                b = self.bets.get(instr["betId"])
                rep = {"instruction": dict(instr)}
                oc = nat(i)
                consistent(b, oc)
                if oc is None:
                    oc = "SUCCESS" if (b and b.status == "EXECUTABLE") else "FAILURE:BET_TAKEN_OR_LAPSED"
                if oc == "SUCCESS" and b and b.status == "EXECUTABLE":
                    b.pers = instr["newPersistenceType"]
                    b.dirty = True
                    rep.update(status="SUCCESS")
                elif oc.startswith("TIMEOUT"):
                    rep.update(status="TIMEOUT")
                else:
                    rep.update(status="FAILURE", errorCode=oc.split(":")[1] if ":" in oc else "BET_TAKEN_OR_LAPSED")
                    self.failed_reports += 1
                reports.append(rep)
        elif name == "replaceOrders":
            self.instructions_received["replace"] += len(ins)
            for i, instr in enumerate(ins):
                b = self.bets.get(instr["betId"])
                oc = nat(i)
                consistent(b, oc)
                if oc is None:
                    oc = "SUCCESS" if (b and b.status == "EXECUTABLE") else "FAILURE:BET_TAKEN_OR_LAPSED"
                    if b and b.status == "EXECUTABLE" and b.ot != "LIMIT":
                        oc = "FAILURE:BET_ACTION_ERROR"  # only LIMIT bets can be cancelled / re-priced (as flumine's simulator answers)
                crep = {"instruction": {"betId": instr["betId"]}}
                prep = {}
                if oc == "SUCCESS" and b and b.status == "EXECUTABLE":
                    c = b.sr
                    b.sc, b.sr, b.status, b.dirty = round(b.sc + c, 2), 0.0, "EXECUTION_COMPLETE", True
                    crep.update(status="SUCCESS", sizeCancelled=c, cancelledDate=iso(self.pt))
                    ninstr = {"selectionId": b.sel, "handicap": b.hc, "side": b.side, "orderType": "LIMIT", "customerOrderRef": b.ref,
                              "limitOrder": {"price": instr["newPrice"], "size": c, "persistenceType": b.pers}}
                    nb = self.new_bet(b.market_id, ninstr)
                    prep.update(status="SUCCESS", instruction=self._echo(ninstr), betId=nb.bet_id, placedDate=iso(self.pt),
                                averagePriceMatched=0.0, sizeMatched=0.0, orderStatus="EXECUTABLE")
                    rep = {"status": "SUCCESS", "cancelInstructionReport": crep, "placeInstructionReport": prep}
                elif oc == "CANCELLED_PLACE_FAILED" and b and b.status == "EXECUTABLE":
                    c = b.sr
                    b.sc, b.sr, b.status, b.dirty = round(b.sc + c, 2), 0.0, "EXECUTION_COMPLETE", True
                    crep.update(status="SUCCESS", sizeCancelled=c, cancelledDate=iso(self.pt))
                    prep.update(status="FAILURE", errorCode="INSUFFICIENT_FUNDS")
                    rep = {"status": "FAILURE", "errorCode": "INSUFFICIENT_FUNDS", "cancelInstructionReport": crep, "placeInstructionReport": prep}
                elif oc.startswith("TIMEOUT"):
                    crep.update(status="TIMEOUT")
                    prep.update(status="TIMEOUT")
                    rep = {"status": "TIMEOUT", "cancelInstructionReport": crep, "placeInstructionReport": prep}
                else:
                    code = oc.split(":")[1] if ":" in oc else "BET_TAKEN_OR_LAPSED"
                    crep.update(status="FAILURE", errorCode=code)
                    prep.update(status="FAILURE", errorCode=code)
                    self.failed_reports += 1
                    rep = {"status": "FAILURE", "errorCode": code, "cancelInstructionReport": crep, "placeInstructionReport": prep}
                reports.append(rep)
        else:
            raise ValueError(name)
        self.call_failed.append(self.failed_reports - failed_before)
        st = "SUCCESS" if all(r["status"] == "SUCCESS" for r in reports) else "FAILURE"
        result = {"customerRef": params.get("customerRef"), "status": st, "marketId": mid, "instructionReports": reports}
        if cref:
            self.dedupe[(name, cref)] = json.loads(json.dumps(result))
            self.dedupe_failed[(name, cref)] = self.call_failed[-1]
        return result

    # ---- order stream ------------------------------------------------------------------------
    def uo(self, b):
        d = {"id": b.bet_id, "p": b.price, "s": b.size, "side": "B" if b.side == "BACK" else "L",
             "status": "E" if b.status == "EXECUTABLE" else "EC", "ot": {"LIMIT": "L", "LIMIT_ON_CLOSE": "LOC", "MARKET_ON_CLOSE": "MOC"}[b.ot],
             "pd": b.placed, "sm": b.sm, "sr": b.sr, "sl": b.sl, "sc": b.sc, "sv": b.sv, "rfo": b.ref, "rfs": b.sref, "avp": b.avp or None}
        if b.pers:
            d["pt"] = {"LAPSE": "L", "PERSIST": "P", "MARKET_ON_CLOSE": "MOC"}[b.pers]
        if b.liability is not None:
            d["bsp"] = b.liability
        if b.sm:
            d["md"] = self.pt
        return d

    def message(self, market_id, full_image=False, only_executable=False):
        """delta (dirty bets) or full image of one market as an `ocm` message"""
        self.clk += 1
        per = {}
        for b in self.bets.values():
            if b.market_id != market_id:
                continue
            if full_image:
                if only_executable and b.status != "EXECUTABLE":
                    continue
            elif not b.dirty:
                continue
            per.setdefault((b.sel, b.hc), []).append(self.uo(b))
            if not full_image:
                b.dirty = False
        if not per and not full_image:
            return None
        orc = []
        for (sel, hc), uos in per.items():
            d = {"id": sel, "uo": uos}
            if hc:
                d["hc"] = hc
            if full_image:
                d["fullImage"] = True
            orc.append(d)
        oc = {"id": market_id, "orc": orc}
        if full_image:
            oc["fullImage"] = True
        msg = {"op": "ocm", "id": self.stream_uid, "clk": "c%d" % self.clk, "pt": self.tick(1), "oc": [oc]}
        self.messages.append(msg)
        return msg


class FakeResponse:
    def __init__(self, status_code, body):
        self.status_code = status_code
        self.content = body if isinstance(body, bytes) else body.encode()
        self.text = self.content.decode("utf-8", "replace")
        self.headers = {}

    def json(self):
        return json.loads(self.text)


class FakeSession:
    """requests.Session stand-in bound to the double; one per LiveLab"""

    def __init__(self, lab):
        self.lab = lab
        self.time_created = 0
        self.time_returned = 10**12  # never considered stale

    def post(self, url, data=None, headers=None, timeout=None):
        return self.lab.on_post(url, data)


class Deferred:
    """thread pool stand-in: tasks are queued and run when the driver decides"""

    def __init__(self):
        self.queue = []
        self._threads = ()
        self._work_queue = types.SimpleNamespace(qsize=lambda: 0)

    def submit(self, fn, *args):
        self.queue.append((fn, args))

    def shutdown(self, wait=True):
        pass


class LiveLab:
    def __init__(self, market_specs, strategies=("S",), async_place=False, strategy_kwargs=None, exchange=None):
        import betfairlightweight
        from betfairlightweight import StreamListener
        from flumine import Flumine, BaseStrategy, clients
        from flumine.events import events
        from flumine.order import orderpackage
        from flumine.streams.historicalstream import HistoricListener
        import queue

        self._events = events
        self._cfg = simlab.clean_config({"simulated": False, "async_place_orders": async_place})
        self._cfg.__enter__()
        self._orderpackage = orderpackage
        self._sleep = orderpackage.time.sleep
        self.exchange = exchange or Exchange()
        self.api = betfairlightweight.APIClient("user", "pw", app_key="k", lightweight=False)
        self.api.set_session_token("token")
        self.client = clients.BetfairClient(self.api, username="live", order_stream=False)
        self.fw = Flumine(self.client)
        # fake sleep only while a lab is alive (restored in close)
        orderpackage.time = types.SimpleNamespace(sleep=lambda s: None, time=orderpackage.time.time)
        self.pool = Deferred()
        self.fw.betfair_execution._thread_pool.shutdown(wait=False)
        self.fw.betfair_execution._thread_pool = self.pool
        self.session = FakeSession(self)
        self.fw.betfair_execution._get_http_session = lambda: self.session
        self.fw.betfair_execution._return_http_session = lambda s, err=False: None

        class Strat(BaseStrategy):
            def __init__(s_, **kw):
                super().__init__(**kw)
                s_.seen_orders = []

            def check_market_book(s_, market, market_book):
                return True

            def process_orders(s_, market, orders):
                s_.seen_orders.append([(o.id, o.status.name if o.status else None) for o in orders])

        kw = dict(max_order_exposure=None, max_selection_exposure=None, max_trade_count=10**6, max_live_trade_count=10**6)
        kw.update(strategy_kwargs or {})
        self.strategies = []
        self._Strat, self._skw = Strat, kw
        for n in strategies:
            s = Strat(market_filter={"x": 1}, name=n, **kw)
            self.fw.strategies(s, self.fw.clients, self.fw)
            self.strategies.append(s)
        self.exchange.sref = __import__("flumine").config.customer_strategy_ref
        # market data side
        self.specs = market_specs
        self.listeners, self.renderers, self.uids = [], [], []
        for i, spec in enumerate(market_specs):
            uid = (i + 1) * 10
            lst = HistoricListener(max_latency=None, update_clk=False)
            lst.register_stream(uid, "marketSubscription")
            self.listeners.append(lst)
            self.renderers.append(world.Renderer(spec))
            self.uids.append(uid)
            for s in self.strategies:
                s.historic_stream_ids.add(uid)
        # order stream side
        self.oq = queue.Queue()
        self.olistener = StreamListener(output_queue=self.oq, max_latency=None, lightweight=False)
        self.olistener.register_stream(self.exchange.stream_uid, "orderSubscription")
        self.reported_failed = []
        self.call_plan = []  # consumed per API call
        self.in_call_hook = None
        self.calls = 0
        self.call_log = []
        self.closed = False
        self.prices = [world.ladder_prices(s) for s in market_specs]

    # ---- market data -------------------------------------------------------------------------
    def add_strategy(self, name):
        """register a further strategy on the running framework (as flumine.add_strategy does)"""
        s = self._Strat(market_filter={"x": 1}, name=name, **self._skw)
        self.fw.strategies(s, self.fw.clients, self.fw)
        self.strategies.append(s)
        for uid in self.uids:
            s.historic_stream_ids.add(uid)
        return s

    def feed(self, mi, step=None):
        r = self.renderers[mi]
        if not r.lines:
            r.first()
        else:
            r.apply(step or {"k": "book", "dt": 1000, "rc": []})
        lst = self.listeners[mi]
        if lst.on_data(r.lines[-1]):
            books = [c.create_resource(self.uids[mi], snap=True) for c in lst.stream._caches.values() if c.active]
            self.fw._process_market_books(self._events.MarketBookEvent(books))
        self.pump()
        return r.updates[-1]

    def market(self, mi=0):
        return self.fw.markets.markets.get(self.specs[mi]["id"])

    def pump(self):
        """handler-queue events other than execution (close market etc.) - mirrors Flumine.run's dispatch table"""
        while not self.fw.handler_queue.empty():
            ev = self.fw.handler_queue.get()
            t = ev.EVENT_TYPE.name
            if t == "CLOSE_MARKET":
                self.fw._process_close_market(ev)
            elif t == "CURRENT_ORDERS":
                self.fw._process_current_orders(ev)
            elif t == "MARKET_BOOK":
                self.fw._process_market_books(ev)

    # ---- order stream --------------------------------------------------------------------------
    def deliver(self, msg):
        """one order-stream message through the real cache into flumine"""
        if msg is None:
            return
        self.olistener.on_data(json.dumps(msg))
        while not self.oq.empty():
            books = self.oq.get()
            for b in books:
                b.client = self.client
            self.fw._process_current_orders(self._events.CurrentOrdersEvent(books))

    def deliver_delta(self, mi=0):
        self.deliver(self.exchange.message(self.specs[mi]["id"]))

    def deliver_image(self, mi=0, only_executable=False):
        self.deliver(self.exchange.message(self.specs[mi]["id"], full_image=True, only_executable=only_executable))

    # ---- REST -----------------------------------------------------------------------------------
    def on_post(self, url, data):
        req = json.loads(data)
        method, params = req["method"], req["params"]
        plan = self.call_plan.pop(0) if self.call_plan else {}
        self.calls += 1
        self.call_log.append((method.split("/")[-1], plan.get("transport"), len(params.get("instructions", []))))
        tr = plan.get("transport")
        if tr == "connection":
            raise requests.ConnectionError("injected")
        if tr == "timeout":
            raise requests.Timeout("injected")
        if tr == "http500":
            return FakeResponse(500, "oops")
        if tr == "garbage":
            return FakeResponse(200, "<html>not json</html>")
        if tr == "rpc-error":
            return FakeResponse(200, json.dumps({"jsonrpc": "2.0", "error": {"code": -32099, "message": "ANGX-0003",
                                                                              "data": {"APINGException": {"errorCode": "INVALID_SESSION_INFORMATION"}}}, "id": 1}))
        self.exchange.tick(5)
        result = self.exchange.handle(method, params, plan.get("outcomes"))
        if tr == "applied-then-connection":
            raise requests.ConnectionError("injected after the exchange applied the request")
        hook = plan.get("hook")
        if hook:
            hook(self)  # e.g. deliver stream updates while the response is "in flight"
        reports = result["instructionReports"]
        if plan.get("reverse_reports"):
            reports.reverse()
        if plan.get("drop_report") is not None and reports:
            reports.pop(plan["drop_report"] % len(reports))
        name = method.split("/")[-1]
        if name in ("cancelOrders", "updateOrders"):
            nf = sum(1 for r in reports if r["status"] == "FAILURE")
        elif name == "replaceOrders":
            nf = sum(1 for r in reports if r["cancelInstructionReport"]["status"] == "FAILURE")
        else:
            nf = 0
        self.reported_failed.append(nf)  # failed instructions actually reported back to the caller
        return FakeResponse(200, json.dumps({"jsonrpc": "2.0", "result": result, "id": 1}))

    def run_task(self, k=0):
        if not self.pool.queue:
            return False
        fn, args = self.pool.queue.pop(k % len(self.pool.queue))
        fn(*args)
        return True

    def run_all(self, limit=50):
        n = 0
        while self.pool.queue and n < limit:
            self.run_task(0)
            n += 1
        return n

    # ---- helpers ---------------------------------------------------------------------------------
    def make_order(self, strategy, mi, runner=0, side="BACK", tick=60, size=2.0, trade=None, pers="LAPSE", typ="LIMIT", liability=5.0):
        from flumine.order.trade import Trade
        from flumine.order.ordertype import LimitOrder, LimitOnCloseOrder, MarketOnCloseOrder

        spec = self.specs[mi]
        r = spec["runners"][runner % len(spec["runners"])]
        t = trade or Trade(spec["id"], r["id"], r.get("hc", 0), strategy)
        price = self.prices[mi][tick]
        if typ == "LIMIT":
            ot = LimitOrder(price, size, persistence_type=pers)
        elif typ == "LOC":
            ot = LimitOnCloseOrder(liability, price)
        else:
            ot = MarketOnCloseOrder(liability)
        return t.create_order(side, ot)

    def close(self):
        if self.closed:
            return
        self.closed = True
        self._orderpackage.time = __import__("time")
        try:
            self.fw.simulated_execution.shutdown()
            self.fw.betdaq_execution.shutdown()
        finally:
            self._cfg.__exit__(None, None, None)
