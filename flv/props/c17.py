"""C17 - Price helpers and order validation agree with the exchange's ladders."""
import math
from fractions import Fraction

from ..common import SubCheck, Violation, run_given
from ..oracles import ladder as L

PROPERTY = "C17"
LEVEL = "exploration"
SHARDS = {"quick": 8, "thorough": 16}
ALL_EXHAUSTIVE = False
RULE = (
    "Exhaustive enumeration: get_nearest_price on every x in [0,1100] on a grid (0.001 thorough / 0.01 quick) "
    "plus every tick mid-point and its nextafter neighbours, ints and floats, classic and Betdaq cut-offs; "
    "price_ticks_away on every tick x every n in [-400,400] for both ladders; OrderValidation applied to real "
    "orders with real clients over every ladder x {tick, tick+-0.001, +-0.005, +-1e-9} and sizes/liabilities on "
    "a 0.001 grid around 0, the min stake, the payout threshold and the BSP liability minimum for all 19 "
    "currencies x min_bet_validation x side x order type; plus a Hypothesis-sampled full product through "
    "market.place_order with packages captured. Non-trivial: nearest-price points within 0.002 of a mid-point or "
    "cut-off; (tick, n) pairs that clamp; validation cases within 0.011 of a threshold or off-ladder by < 0.01."
)
ASSUMPTIONS = [
    "Betfair classic ladder = published increment table (350 ticks); Betdaq ladder pinned from the repository's documented BETDAQ_CUTOFFS",
    "currency minimums are taken from betfairlightweight.metadata.currency_parameters (a dependency, not flumine)",
    "min stake / payout rule: a LIMIT order below the min stake is allowed iff price*size >= min payout (exact decimal arithmetic)",
]

EPS = Fraction(1, 10**9)
LINES = [(0, 10, 0.5), (0, 10, 1.0), (0.5, 20.5, 1.0), (0.5, 20.5, 0.5), (100, 140, 1.0)]


def _ladders():
    from flumine import utils

    return {
        "classic": (utils.CUTOFFS, L.CLASSIC_C, L.CLASSIC),
        "betdaq": (utils.BETDAQ_CUTOFFS, L.BETDAQ_C, L.BETDAQ),
    }


# ------------------------------------------------------------------------------------------
# nearest price
# ------------------------------------------------------------------------------------------


def check_nearest(x, name, cutoffs, ticks_c, tick_set):
    from flumine import utils

    r = utils.get_nearest_price(x, cutoffs) if name != "classic" else utils.get_nearest_price(x)
    fr = Fraction(str(r))
    rc = fr * 100
    if rc.denominator != 1 or int(rc) not in tick_set:
        raise Violation("nearest.not-a-tick", (name,), "get_nearest_price(%r)=%r is not a %s tick" % (x, r, name),
                        {"fn": "nearest", "ladder": name, "x": x})
    fx = Fraction(str(x)) if not isinstance(x, int) else Fraction(x)
    if fx <= Fraction(101, 100):
        exp = Fraction(101, 100)
        if fr != exp:
            raise Violation("nearest.clamp-low", (name,), "get_nearest_price(%r)=%r, expected 1.01" % (x, r),
                            {"fn": "nearest", "ladder": name, "x": x})
    elif fx >= 1000:
        if fr != 1000:
            raise Violation("nearest.clamp-high", (name,), "get_nearest_price(%r)=%r, expected 1000" % (x, r),
                            {"fn": "nearest", "ladder": name, "x": x})
    else:
        best = L.nearest_distance(fx, ticks_c)
        if abs(fx - fr) > best + EPS:
            raise Violation(
                "nearest.not-closest", (name,),
                "get_nearest_price(%r)=%r at distance %s but a tick lies at distance %s" % (x, r, float(abs(fx - fr)), float(best)),
                {"fn": "nearest", "ladder": name, "x": x})
    r2 = utils.get_nearest_price(r, cutoffs) if name != "classic" else utils.get_nearest_price(r)
    if r2 != r:
        raise Violation("nearest.not-idempotent", (name,), "nearest(nearest(%r))=%r != %r" % (x, r2, r),
                        {"fn": "nearest", "ladder": name, "x": x})


def _near_boundary(xc_thousandths, mids):
    import bisect

    i = bisect.bisect_left(mids, xc_thousandths)
    for j in (i - 1, i):
        if 0 <= j < len(mids) and abs(mids[j] - xc_thousandths) <= 2:
            return True
    return False


def sub_nearest(col, budget, seed, tier, shard, nshards):
    step = 1 if tier == "thorough" else 10  # thousandths
    for name, (cutoffs, ticks_c, ticks) in _ladders().items():
        tick_set = set(ticks_c)
        # boundaries in thousandths: mid-points between ticks and the ticks at cut-offs
        mids = sorted({(a + b) * 5 for a, b in zip(ticks_c, ticks_c[1:])})
        n = 0
        total = 1100 * 1000 // step + 1
        lo = shard * total // nshards
        hi = (shard + 1) * total // nshards
        for k in range(lo, hi):
            t = k * step
            x = t / 1000
            try:
                check_nearest(x, name, cutoffs, ticks_c, tick_set)
            except Violation as v:
                if not col.handle(v):
                    col.violations.append(dict(col.last_failure, sub="nearest"))
                    col.suppressed.add(v.signature)
            if _near_boundary(t, mids):
                col.record({"fn": "nearest", "ladder": name, "x": x}, True, ("nearest:near-boundary",), "nearest",
                           sample=(k % 997 == 0))
            else:
                n += 1
        col.count(n, "nearest")
        # mid-points, neighbours, ints  (split by shard)
        pts = []
        for a, b in zip(ticks_c, ticks_c[1:]):
            m = (a + b) / 200
            pts += [m, math.nextafter(m, 0), math.nextafter(m, 2000), a / 100, math.nextafter(a / 100, 0),
                    math.nextafter(a / 100, 2000)]
        pts += list(range(0, 1102)) + [1000.0, math.nextafter(1000.0, 0), math.nextafter(1000.0, 2000), 1.01,
                                       math.nextafter(1.01, 0), 1e-9, 0.0, 1099.999]
        for i, x in enumerate(pts):
            if i % nshards != shard:
                continue
            try:
                check_nearest(x, name, cutoffs, ticks_c, tick_set)
            except Violation as v:
                if not col.handle(v):
                    col.violations.append(dict(col.last_failure, sub="nearest"))
                    col.suppressed.add(v.signature)
            col.record({"fn": "nearest", "ladder": name, "x": x}, True, ("nearest:boundary-point",), "nearest",
                       sample=(i % 501 == 0))
    col.exhaustive["nearest"] = tier == "thorough"


# ------------------------------------------------------------------------------------------
# ticks away
# ------------------------------------------------------------------------------------------


def check_ticks(p, n, name, ticks, prices_arg):
    from flumine import utils

    r = utils.price_ticks_away(p, n, prices_arg)
    i = ticks.index(p)
    j = max(0, min(len(ticks) - 1, i + n))
    if r != ticks[j]:
        raise Violation(
            "ticks-away", (name, "clamp-low" if i + n < 0 else "clamp-high" if i + n >= len(ticks) else "inside"),
            "price_ticks_away(%r, %d)=%r, expected %r" % (p, n, r, ticks[j]),
            {"fn": "ticks", "ladder": name, "p": p, "n": n})


def sub_ticks(col, budget, seed, tier, shard, nshards):
    from flumine import utils

    for name, (cutoffs, ticks_c, ticks) in _ladders().items():
        prices_arg = None if name == "classic" else utils.BETDAQ_PRICES_FLOAT
        plain = 0
        for i, p in enumerate(ticks):
            if i % nshards != shard:
                continue
            for n in range(-400, 401):
                try:
                    check_ticks(p, n, name, ticks, prices_arg)
                except Violation as v:
                    if not col.handle(v):
                        col.violations.append(dict(col.last_failure, sub="ticks"))
                        col.suppressed.add(v.signature)
                if i + n < 0 or i + n >= len(ticks):
                    col.record({"fn": "ticks", "ladder": name, "p": p, "n": n}, True, ("ticks:clamp",), "ticks",
                               sample=(n % 97 == 0))
                else:
                    plain += 1
        col.count(plain, "ticks")
    col.exhaustive["ticks"] = True


# ------------------------------------------------------------------------------------------
# validation
# ------------------------------------------------------------------------------------------

_ENV = {}


class _FakeAccount:
    def __init__(self, cur):
        self.cur = cur
        self.fail = False

    def get_account_details(self):
        from betfairlightweight import BetfairError
        from betfairlightweight.resources.accountresources import AccountDetails

        if self.fail:
            raise BetfairError("transient")
        return AccountDetails(discountRate=0, currencyCode=self.cur)

    def get_account_funds(self):
        from betfairlightweight import BetfairError
        from betfairlightweight.resources.accountresources import AccountFunds

        if self.fail:
            raise BetfairError("transient")
        return AccountFunds(availableToBetBalance=1000.0, discountRate=0, exposure=0.0, exposureLimit=-10000.0,
                            pointsBalance=0, retainedCommission=0.0, wallet="UK")


class _FakeBettingClient:
    def __init__(self, cur):
        self.account = _FakeAccount(cur)


def _env():
    """one framework, controls and clients per worker process"""
    if _ENV:
        return _ENV
    from flumine import FlumineSimulation, clients, BaseStrategy
    from flumine.controls.tradingcontrols import OrderValidation
    from betfairlightweight.resources.accountresources import AccountDetails
    from betfairlightweight.metadata import currency_parameters

    fw = FlumineSimulation(clients.SimulatedClient(username="v"))
    _ENV["fw"] = fw
    _ENV["control"] = OrderValidation(fw)
    _ENV["strategy"] = BaseStrategy(market_filter={}, name="c17")
    _ENV["currencies"] = dict(currency_parameters)
    cl = {}
    for cur in currency_parameters:
        for mbv in (True, False):
            sc = clients.SimulatedClient(username="s%s%s" % (cur, mbv), min_bet_validation=mbv)
            sc.account_details = AccountDetails(discountRate=0, currencyCode=cur)
            bc = clients.BetfairClient(betting_client=None, username="b%s%s" % (cur, mbv), min_bet_validation=mbv)
            bc.account_details = AccountDetails(discountRate=0, currencyCode=cur)
            cl[("sim", cur, mbv)] = sc
            cl[("bf", cur, mbv)] = bc
            # a live client that learnt its account through the real polling path: successful poll at login, then a
            # poll in which both account calls fail (BetfairError) - the account's currency rules are unchanged
            pc = clients.BetfairClient(betting_client=_FakeBettingClient(cur), username="p%s%s" % (cur, mbv), min_bet_validation=mbv)
            pc.update_account_details()
            pc.betting_client.account.fail = True
            pc.update_account_details()
            pc.betting_client.account.fail = False
            cl[("bfpoll", cur, mbv)] = pc
    _ENV["clients"] = cl
    return _ENV


def make_order(case):
    from flumine.order.trade import Trade
    from flumine.order.ordertype import LimitOrder, LimitOnCloseOrder, MarketOnCloseOrder, BetdaqLimitOrder
    from flumine.order.order import BetdaqOrder
    from betfairlightweight.resources.bettingresources import LineRangeInfo

    env = _env()
    trade = Trade("1.100000000", 1001, 0, env["strategy"])
    lad = case["ladder"]
    typ = case["type"]
    if lad == "BETDAQ":
        ot = BetdaqLimitOrder(case["price"], case["amount"], 1, 0, 0)
        order = trade.create_betdaq_order(case["side"], ot)
    else:
        if typ == "LIMIT":
            lri = None
            if lad == "LINE_RANGE":
                lri = LineRangeInfo(maxUnitValue=case["line"][1], minUnitValue=case["line"][0],
                                    interval=case["line"][2], marketUnit="runs")
            ot = LimitOrder(case["price"], case["amount"], price_ladder_definition=lad, line_range_info=lri)
        elif typ == "LOC":
            ot = LimitOnCloseOrder(case["amount"], case["price"], price_ladder_definition=lad)
        else:
            ot = MarketOnCloseOrder(case["amount"])
        order = trade.create_order(case["side"], ot)
    order.update_client(env["clients"][(case["client"], case["currency"], case["mbv"])])
    return order


def two_dp(x):
    try:
        f = Fraction(str(x)) * 100
    except (ValueError, ZeroDivisionError):
        return False
    return f.denominator == 1


def expected_valid(case):
    """independent predicate; returns (valid, reason)"""
    env = _env()
    cur = env["currencies"][case["currency"]]
    lad, typ, price, amt = case["ladder"], case["type"], case["price"], case["amount"]
    # price on ladder
    if typ != "MOC":
        if price is None:
            return False, "price-none"
        if lad == "CLASSIC":
            ok = L.on_ladder_cents(price, L.CLASSIC_SET)
        elif lad == "FINEST":
            ok = L.on_finest(price)
        elif lad == "BETDAQ":
            ok = L.on_ladder_cents(price, L.BETDAQ_SET)
        else:
            lo, hi, iv = case["line"]
            f = Fraction(str(price))
            ok = lo <= f <= hi and ((f - Fraction(lo)) / Fraction(iv)).denominator == 1
        if not ok:
            return False, "off-ladder"
    if amt is None:
        return False, "amount-none"
    if not (amt > 0):
        return False, "non-positive"
    if not two_dp(amt):
        return False, "more-than-2dp"
    if lad == "BETDAQ" or not case["mbv"]:
        return True, "ok"
    famt = Fraction(str(amt))
    if typ == "LIMIT":
        if famt < cur["min_bet_size"] and famt * Fraction(str(price)) < cur["min_bet_payout"]:
            return False, "below-min"
    else:
        if case["side"] == "BACK" and famt < cur["min_bet_size"]:
            return False, "below-min"
        if case["side"] == "LAY" and famt < cur["min_bsp_liability"]:
            return False, "below-min-bsp"
    return True, "ok"


def check_validation(case):
    from flumine.order.orderpackage import OrderPackageType
    from flumine.order.order import OrderStatus
    from flumine.exceptions import ControlError

    env = _env()
    order = make_order(case)
    exp, reason = expected_valid(case)
    try:
        env["control"](order, OrderPackageType.PLACE)
        got = True
    except ControlError:
        got = False
    except Exception as exc:
        # "any input is refused or accepted cleanly": an exception other than the control's own refusal is a finding
        from ..common import crash_violation

        raise crash_violation(exc, case, "crash") from exc
    if got != exp:
        raise Violation(
            "validation.%s" % ("accepted-invalid" if got else "refused-valid"), (case["ladder"], case["type"], reason),
            "OrderValidation %s order %r; independent predicate says %s (%s)" % ("accepted" if got else "refused", case, exp, reason),
            case)
    if not got and order.status != OrderStatus.VIOLATION:
        raise Violation("validation.refused-not-marked", (case["ladder"], case["type"]),
                        "refused order has status %s" % order.status, case)
    if got and order.status is not None:
        raise Violation("validation.accepted-status-changed", (case["ladder"], case["type"]),
                        "accepted order has status %s after validation only" % order.status, case)
    return reason


def _amount_grid(thresholds, tier):
    pts = set()
    for t in thresholds:
        for d in range(-12, 13):
            v = round(t + d / 1000, 3)
            pts.add(v)
    pts.update([-1.0, 0.0, 0.001, 0.01])
    return sorted(pts)


def sub_validation_enum(col, budget, seed, tier, shard, nshards):
    env = _env()
    cases = []
    curs = sorted(env["currencies"])
    deltas = (0.0, 0.001, -0.001, 0.005, -0.005, 1e-9, -1e-9)
    # (1) price ladder membership: every classic/betdaq tick and a finest sample x deltas, fixed big size
    for lad, ticks in (("CLASSIC", L.CLASSIC), ("BETDAQ", L.BETDAQ),
                       ("FINEST", L.FINEST if tier == "thorough" else L.FINEST[::37] + L.FINEST[-3:])):
        for p in ticks:
            for d in deltas:
                price = p + d if d else p
                if abs(d) == 1e-9:
                    price = float("%.9f" % (p + d))
                elif d:
                    price = round(p + d, 3)
                cases.append({"ladder": lad, "type": "LIMIT", "side": "BACK", "price": price, "amount": 500.0,
                              "client": "sim", "currency": "GBP", "mbv": True})
    # finest prices that are classic-off: covered by FINEST loop; classic orders at finest-only prices:
    for p in (L.FINEST if tier == "thorough" else L.FINEST[::11]):
        cases.append({"ladder": "CLASSIC", "type": "LOC", "side": "LAY", "price": p, "amount": 500.0,
                      "client": "bf", "currency": "GBP", "mbv": True})
    # line ranges, half and whole unit
    # includes ranges that share min/max but differ in interval, in both orders (one control instance
    # validates them all, as one framework does for several line markets)
    for line in ((0, 10, 0.5), (0, 10, 1.0), (0.5, 20.5, 1.0), (0.5, 20.5, 0.5), (100, 140, 1.0), (-5.5, 5.5, 0.5),
                 (1, 400, 1.0), (0, 10, 0.5)):
        lo, hi, iv = line
        k = lo - 2
        while k <= hi + 2:
            for d in (0.0, 0.25, 0.5, 0.001):
                cases.append({"ladder": "LINE_RANGE", "type": "LIMIT", "side": "LAY", "price": k + d, "amount": 500.0,
                              "client": "sim", "currency": "GBP", "mbv": True, "line": list(line)})
            k += 0.5 if iv == 0.5 else 1.0
    # (2) sizes / liabilities around thresholds for every currency
    # (prices at which payout / price is not a whole number of cents, rounding down as well as up, are included: the
    #  smallest valid stake there is the quotient rounded UP)
    probe_prices = [1.01, 1.5, 2.0, 3.0, 5.0, 10.0, 11.0, 12.0, 13.0, 20.0, 30.0, 50.0, 70.0, 100.0, 980.0, 1000.0]
    for cur in curs:
        c = env["currencies"][cur]
        for mbv in (True, False):
            for cl in ("sim", "bf", "bfpoll"):
                if cl == "bf" and tier == "quick" and cur not in ("GBP", "HUF", "AUD"):
                    continue
                if cl == "bfpoll" and tier == "quick" and cur not in ("AUD", "SEK", "USD"):
                    continue
                for side in ("BACK", "LAY"):
                    for price in probe_prices:
                        ths = [0, c["min_bet_size"], c["min_bet_payout"] / price]
                        for amt in _amount_grid(ths, tier):
                            cases.append({"ladder": "CLASSIC", "type": "LIMIT", "side": side, "price": price,
                                          "amount": amt, "client": cl, "currency": cur, "mbv": mbv})
                    ths = [0, c["min_bet_size"], c["min_bsp_liability"]]
                    for typ in ("LOC", "MOC"):
                        for amt in _amount_grid(ths, tier):
                            cases.append({"ladder": "CLASSIC", "type": typ, "side": side, "price": 2.0,
                                          "amount": amt, "client": cl, "currency": cur, "mbv": mbv})
    # betdaq sizes
    for amt in _amount_grid([0, 1], tier):
        cases.append({"ladder": "BETDAQ", "type": "LIMIT", "side": "BACK", "price": 2.0, "amount": amt,
                      "client": "sim", "currency": "GBP", "mbv": True})
    # None price / amount
    for typ in ("LIMIT", "LOC", "MOC"):
        cases.append({"ladder": "CLASSIC", "type": typ, "side": "BACK", "price": 2.0, "amount": None,
                      "client": "sim", "currency": "GBP", "mbv": True})
    for i, case in enumerate(cases):
        if i % nshards != shard:
            continue
        try:
            reason = check_validation(case)
        except Violation as v:
            if not col.handle(v, case):
                col.violations.append(dict(col.last_failure, sub="validation-enum"))
                col.suppressed.add(v.signature)
            reason = "violation"
        nt = reason != "ok" or _near_threshold(case)
        col.record(case, nt, ("validation:" + reason, "validation:" + case["ladder"], "validation:" + case["type"]),
                   "validation-enum", sample=(i % 4001 == 0))
    col.exhaustive["validation-enum"] = True


def _near_threshold(case):
    env = _env()
    c = env["currencies"][case["currency"]]
    a = case["amount"]
    if a is None:
        return True
    ths = [0, c["min_bet_size"], c["min_bsp_liability"]]
    if case["price"]:
        ths.append(c["min_bet_payout"] / case["price"])
    return any(abs(a - t) <= 0.011 for t in ths)


# --- full path through market.place_order (Hypothesis-sampled product) ---------------------


def _strategy_case():
    from hypothesis import strategies as st

    env = _env()
    curs = sorted(env["currencies"])

    @st.composite
    def case(draw):
        lad = draw(st.sampled_from(["CLASSIC", "CLASSIC", "FINEST", "LINE_RANGE"]))
        typ = draw(st.sampled_from(["LIMIT", "LIMIT", "LOC", "MOC"])) if lad != "LINE_RANGE" else "LIMIT"
        cur = draw(st.sampled_from(curs))
        c = env["currencies"][cur]
        side = draw(st.sampled_from(["BACK", "LAY"]))
        out = {"ladder": lad, "type": typ, "side": side, "client": "sim", "currency": cur,
               "mbv": draw(st.booleans()), "routed": draw(st.integers(0, 3)) == 0}
        if lad == "LINE_RANGE":
            line = draw(st.sampled_from(LINES))
            out["line"] = list(line)
            k = draw(st.integers(-2, 45))
            base = line[0] + k * line[2]
            price = base + draw(st.sampled_from([0, 0, 0, 0.25, 0.5, 0.001]))
        else:
            ticks = L.CLASSIC if lad == "CLASSIC" else L.FINEST
            p = ticks[draw(st.integers(0, len(ticks) - 1))]
            d = draw(st.sampled_from([0, 0, 0, 0.001, -0.001, 0.005, -0.005, 0.01, -0.01]))
            price = round(p + d, 3)
        out["price"] = price
        if typ == "LIMIT":
            ths = [0, c["min_bet_size"], c["min_bet_payout"] / max(price, 1.01)]
        else:
            ths = [0, c["min_bet_size"], c["min_bsp_liability"]]
        t = draw(st.sampled_from(ths))
        out["amount"] = round(t + draw(st.integers(-12, 12)) / 1000, 3)
        if draw(st.integers(0, 9)) == 0:
            out["amount"] = round(draw(st.integers(1, 200000)) / 100, 2)
        return out

    return case()


_STEP = {}


def _stepper():
    """one open market per worker; strategy without exposure / trade limits"""
    if _STEP:
        return _STEP["s"]
    from .. import simlab, world

    markets = []
    for i, lad in enumerate(({"type": "CLASSIC"}, {"type": "FINEST"})):
        m = world.default_market(i, 3, ladder=lad)
        markets.append(m)
    for j, line in enumerate(LINES):
        m = world.default_market(2 + j, 2, ladder={"type": "LINE_RANGE", "min": line[0], "max": line[1], "interval": line[2]},
                                 betting_type="LINE", market_type="LINE", bsp_market=False)
        markets.append(m)
    # (client 1 refuses everything - transaction limit below zero - and keeps the GBP rules: an order is sometimes
    #  offered to it first and, once refused, routed to client 0, whose account's rules then apply)
    sc = {"markets": markets, "clients": [{"tx_limit": None}, {"tx_limit": -1}],
          "strategies": [{"name": "v", "max_order_exposure": None, "max_selection_exposure": None,
                          "max_trade_count": 10**9, "max_live_trade_count": 10**9}]}
    s = simlab.Stepper(sc)
    for i in range(len(markets)):
        s.step(i)
    _STEP["s"] = s
    _STEP["n"] = 0
    return s


def check_full_path(case):
    """the same decision through market.place_order; a refused order is VIOLATION, not in the blotter and in
    no package; an accepted one is PENDING, in the blotter and in exactly one PLACE package."""
    from flumine.order.order import OrderStatus

    s = _stepper()
    lines = {l: 2 + j for j, l in enumerate(LINES)}
    mi = {"CLASSIC": 0, "FINEST": 1}.get(case["ladder"])
    if mi is None:
        mi = lines[tuple(case["line"])]
    market = s.market(mi)
    env = _env()
    client = s.lab.clients[0]
    # the stepper's client takes the currency / validation flag of the case
    client.account_details = env["clients"][("sim", case["currency"], case["mbv"])].account_details
    client.min_bet_validation = case["mbv"]
    order = make_order(case)
    order.client = None  # a fresh order: the client is bound by the placement itself
    order.trade.market_id = market.market_id
    order.lookup = order.market_id, order.selection_id, order.handicap
    order.trade.strategy = s.lab.strategies[0]
    n0 = len(s.lab.packages)
    exp, reason = expected_valid(case)
    if case.get("routed"):
        other = s.lab.clients[1]
        other.min_bet_validation = True
        if market.place_order(order, client=other) is not False or order.id in market.blotter:
            raise Violation("validation.full-path.accepted-invalid", (case["ladder"], case["type"], "transaction-limit"),
                            "the client with an exhausted transaction limit accepted the order", case)
    res = market.place_order(order, client=client)
    new = s.lab.packages[n0:]
    in_pkgs = sum(1 for p in new for o in p._orders if o is order)
    s.fw.handler_queue.clear()
    if res != exp:
        raise Violation("validation.full-path.%s" % ("accepted-invalid" if res else "refused-valid"),
                        (case["ladder"], case["type"], reason),
                        "market.place_order returned %s for %r; predicate %s (%s) msg=%s" % (res, case, exp, reason, order.violation_msg), case)
    if not res:
        if order.status != OrderStatus.VIOLATION or order.id in market.blotter or in_pkgs:
            raise Violation("validation.full-path.refused-leaked", (case["ladder"], case["type"]),
                            "refused order status=%s in_blotter=%s packages=%d" % (order.status, order.id in market.blotter, in_pkgs), case)
    else:
        if order.status != OrderStatus.PENDING or order.id not in market.blotter or in_pkgs != 1:
            raise Violation("validation.full-path.accepted-not-sent", (case["ladder"], case["type"]),
                            "accepted order status=%s in_blotter=%s packages=%d" % (order.status, order.id in market.blotter, in_pkgs), case)
    _STEP["n"] += 1
    if _STEP["n"] >= 1500:  # keep blotters small
        s.close()
        _STEP.clear()
    return reason


def sub_validation_full(col, budget, seed, tier, shard, nshards):
    def fn(case):
        reason = check_full_path(case)
        return (reason != "ok" or _near_threshold(case),
                ("full:" + reason, "full:" + case["ladder"], "full:" + case["type"]))

    run_given(col, _strategy_case(), fn, budget, seed, tier, "validation-full")
    if _STEP:
        _STEP["s"].close()
        _STEP.clear()


def subchecks(tier):
    q = tier == "quick"
    return [
        SubCheck("nearest", sub_nearest, 1),
        SubCheck("ticks", sub_ticks, 1),
        SubCheck("validation-enum", sub_validation_enum, 1),
        SubCheck("validation-full", sub_validation_full, 4000 if q else 200000),
    ]


def replay(case, sub=None):
    lad = _ladders()
    if case.get("fn") == "nearest":
        name = case["ladder"]
        cutoffs, ticks_c, ticks = lad[name]
        check_nearest(case["x"], name, cutoffs, ticks_c, set(ticks_c))
    elif case.get("fn") == "ticks":
        from flumine import utils

        name = case["ladder"]
        check_ticks(case["p"], case["n"], name, lad[name][2], None if name == "classic" else utils.BETDAQ_PRICES_FLOAT)
    else:
        check_validation(case)
        if sub == "validation-full" or case["ladder"] != "BETDAQ" and case["client"] == "sim":
            try:
                check_full_path(case)
            finally:
                if _STEP:
                    _STEP["s"].close()
                    _STEP.clear()
