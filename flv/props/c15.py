"""C15 - Blotter views are coherent with the orders placed."""
from ..common import SubCheck
from ..machine import SimWorld, replay_trace
from . import _machines as M

PROPERTY = "C15"
LEVEL = "exploration"
SHARDS = {"quick": 8, "thorough": 16}
RULE = (
    "Rule-based state machine over a real stepped FlumineSimulation with 1-3 strategies, 1-2 clients and 2-4 "
    "selections: placements, replacements (new order objects entering the blotter from the execution layer), "
    "cancels, updates, fills, lapses, voids, closure. A shadow list of every order accepted by place_order is kept; "
    "after every step each shadow order must appear exactly once in the blotter and in each view (strategy, strategy "
    "+ selection, client, client + strategy, trade), lookups by id / bet id return the same object, live_orders "
    "contains every order that is not complete and never regains an order, and status / matched-only filters (all "
    "1- and 2-subsets of statuses) return exactly the shadow orders satisfying them. Non-trivial: >= 2 strategies or "
    "clients and an order that left the live list; distinct = distinct trace JSON."
)
ASSUMPTIONS = [
    "adoption from the order stream (live mode) is exercised by the C11 check on the live double",
]
CHECKS = ("blotter",)


def sub_machine(col, budget, seed, tier, shard, nshards):
    M.run(col, SimWorld, CHECKS, M.base_cfg(limits="none", handicaps=True), budget, 30 if tier == "quick" else 60, seed, tier, "blotter")


def subchecks(tier):
    q = tier == "quick"
    return [SubCheck("blotter", sub_machine, 1000 if q else 30000)]


def replay(case, sub=None):
    replay_trace(SimWorld, CHECKS, case)
