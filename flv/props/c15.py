"""C15 - Blotter views are coherent with the orders placed."""
from ..common import SubCheck
from ..machine import SimWorld, replay_trace
from . import _machines as M

PROPERTY = "C15"
LEVEL = "exploration"
SHARDS = {"quick": 8, "thorough": 16}
RULE = (
    "Rule-based state machine over a real stepped FlumineSimulation with 1-3 strategies, 1-2 clients and 2-4 "
    "selections: placements, replacements (new order objects entering the blotter from the execution layer), "
    "cancels, updates, fills, lapses, voids, closure, data arriving again for the closed market (re-opened, further "
    "orders, second closure). A shadow list of every order accepted by place_order is kept; "
    "after every step each shadow order must appear exactly once in the blotter and in each view (strategy, strategy "
    "+ selection, client, client + strategy, trade), lookups by id / bet id return the same object, live_orders "
    "contains every order that is not complete and never regains an order, and status / matched-only filters (all "
    "1- and 2-subsets of statuses; every view: strategy, strategy + selection + handicap, client, client + strategy) "
    "return exactly the shadow orders satisfying them. Non-trivial: >= 2 strategies or "
    "clients and an order that left the live list; distinct = distinct trace JSON."
)
ASSUMPTIONS = [
    "live mode (adoptions, replacements, stream/response interleavings) is driven through the C11 schedule generator on the live double with the blotter invariants evaluated after every operation",
]
CHECKS = ("blotter",)


def sub_machine(col, budget, seed, tier, shard, nshards):
    M.run(col, SimWorld, CHECKS, M.base_cfg(limits="none", handicaps=True, market_limit=True), budget, 30 if tier == "quick" else 60, seed, tier, "blotter", rule_weights={"resubmit": 2, "reopen": 3, "replace_through": 1})


# ---- live mode: blotter coherence after every step of a generated live schedule (adoptions, replacements) ----


def live_invariant(d, op):
    from ..common import Violation

    m = d.lab.market(0)
    if m is None:
        return
    blotter = m.blotter
    orders = list(blotter)
    # shadow of every order object this framework instance has had in the market's blotter: none ever leaves it and
    # the lookups keep returning the very object
    seen = d.lab.__dict__.setdefault("_seen_orders", {})  # per framework instance (kept on the instance: ids are recycled)
    for o in orders:
        seen.setdefault(o.id, o)
    for oid, o in seen.items():
        if blotter._orders.get(oid) is not o:
            raise Violation("order-left-the-blotter", ("live", "missing" if oid not in blotter._orders else "other-object"),
                            "order %s (bet %s, %s) was in the blotter earlier and is %s after %s" % (
                                oid, o.bet_id, o.status.name if o.status else None,
                                "missing" if oid not in blotter._orders else "another object", op["op"]), d.c)
    if len({id(o) for o in orders}) != len(orders):
        raise Violation("blotter-membership", ("live",), "duplicate order objects in the blotter", d.c)
    live = list(blotter.live_orders)
    for o in orders:
        strat = o.trade.strategy
        views = {
            "strategy_orders": blotter.strategy_orders(strat),
            "strategy_selection_orders": blotter.strategy_selection_orders(strat, o.selection_id, o.handicap),
            "client_orders": blotter.client_orders(o.client),
            "client_strategy_orders": blotter.client_strategy_orders(o.client, strat),
            "trade": blotter._trades.get(o.trade, []),
        }
        for name, v in views.items():
            n = sum(1 for x in v if x is o)
            if n != 1:
                raise Violation("blotter-view", (name, "live"), "order appears %d times in %s after %s" % (n, name, op["op"]), d.c)
        n_live = sum(1 for x in live if x is o)
        if not o.complete and n_live != 1:
            raise Violation("live-list-missing-live-order", (o.status.name if o.status else "None", "live"),
                            "order %s (bet %s) appears %d times in live_orders after %s" % (o.status.name if o.status else None, o.bet_id, n_live, op["op"]), d.c)
        if n_live > 1:
            raise Violation("blotter-view", ("live_orders", "live"), "order appears %d times in live_orders" % n_live, d.c)
        if blotter[o.id] is not o or d.lab.fw.markets.get_order(o.market_id, o.id) is not o:
            raise Violation("blotter-lookup", ("id", "live"), "lookup by id returns another object", d.c)
        # replacement and adopted orders (they enter the blotter already carrying a bet id) are reachable by bet id
        if o.bet_id and not any(o is x for x in d.orders):
            got = blotter.get_order_bet_id(o.bet_id)
            if got is not o:
                raise Violation("blotter-lookup", ("bet-id", "live"), "bet id %s of a replacement / adopted order resolves to %s after %s" % (
                    o.bet_id, "None" if got is None else "another order", op["op"]), d.c)
    # status / matched-only filters of every view return precisely the orders of the view that satisfy them
    present = sorted({o.status for o in orders if o.status is not None}, key=lambda x: x.name)
    keys = {}
    for o in orders:
        st_ = o.trade.strategy
        keys.setdefault(("strategy_orders", id(st_)), (lambda f, mo, a=st_: blotter.strategy_orders(a, order_status=f, matched_only=mo),
                                                        lambda x, a=st_: x.trade.strategy is a))
        keys.setdefault(("strategy_selection_orders", id(st_), o.selection_id, o.handicap),
                        (lambda f, mo, a=st_, b=o.selection_id, h=o.handicap: blotter.strategy_selection_orders(a, b, h, order_status=f, matched_only=mo),
                         lambda x, a=st_, b=o.selection_id, h=o.handicap: x.trade.strategy is a and (x.selection_id, x.handicap) == (b, h)))
        keys.setdefault(("client_orders", id(o.client)), (lambda f, mo, c_=o.client: blotter.client_orders(c_, order_status=f, matched_only=mo),
                                                          lambda x, c_=o.client: x.client is c_))
        keys.setdefault(("client_strategy_orders", id(o.client), id(st_)),
                        (lambda f, mo, c_=o.client, a=st_: blotter.client_strategy_orders(c_, a, order_status=f, matched_only=mo),
                         lambda x, c_=o.client, a=st_: x.client is c_ and x.trade.strategy is a))
    for key, (query, member) in keys.items():
        base = [o for o in orders if member(o)]
        for flt in [[s_] for s_ in present] + [None]:
            for mo in (None, True):
                if flt is None and not mo:
                    continue
                got = query(flt, mo)
                exp = [o for o in base if (flt is None or o.status in flt) and (not mo or o.size_matched > 0)]
                if sorted(map(id, got)) != sorted(map(id, exp)):
                    raise Violation("blotter-filter", (key[0], "live"), "%s filter %s matched_only=%s returned %d orders, expected %d after %s" % (
                        key[0], [x.name for x in flt] if flt else None, mo, len(got), len(exp), op["op"]), d.c)
    d.classes.add("live-invariant-checked")


def check_live(c):
    from . import c11

    return c11.check(c, after_op=live_invariant, convergence=False)


def sub_live(col, budget, seed, tier, shard, nshards):
    from ..common import run_given
    from . import c11

    run_given(col, c11.schedule(tier), check_live, budget, seed, tier, "live")


def subchecks(tier):
    q = tier == "quick"
    return [SubCheck("blotter", sub_machine, 1000 if q else 30000), SubCheck("live", sub_live, 6000 if q else 200000)]


def replay(case, sub=None):
    if isinstance(case, dict) and "ops" in case:
        check_live(case)
    else:
        replay_trace(SimWorld, CHECKS, case)
