"""C05 - Fills never breach the order's limit; fill-or-kill is all-or-nothing."""
from fractions import Fraction

from hypothesis import strategies as st

from .. import gen, simlab, world
from ..common import SubCheck, Violation, run_given, crash_violation

PROPERTY = "C05"
LEVEL = "exploration"
SHARDS = {"quick": 8, "thorough": 16}
RULE = (
    "One placement per case executed through the real simulation (stream file -> FlumineSimulation.run -> package -> "
    "SimulatedExecution.execute_place -> SimulatedOrder.place) against a generated book (0-6 levels/side, gaps, empty "
    "sides, level sizes below/equal/above the order size), limit through by 1-5 levels / at / one tick behind / far "
    "behind the best price, both sides, TIF none/FILL_OR_KILL with min_fill absent/below/equal/above size/0.01, "
    "best_price_execution on/off, simulated_full_match on/off, LAPSE/PERSIST, followed by 0-6 book/trade updates "
    "(the update that executes the placement carries a different book, so look-ahead would show). Non-trivial: at "
    "least one fragment appeared (arrival or passive) or a FOK/BPE decision was exercised; distinct = distinct case JSON. "
    "Sub-check resting: runs with 1-6 resting orders and multi-price traded updates (generator of C06); a resting order "
    "gains only at its limit price and never more than half the volume that traded at or through its limit since it "
    "arrived; non-trivial: a passive fill out of an update that also traded at a price worse than the limit. "
    "Sub-check replace: an order rests behind the book and is replaced to a price through / at / behind the best price; "
    "the replacement is judged like a fresh placement (limit, snapshot levels, BPE-off lapse); non-trivial: the "
    "replacement filled on arrival or a BPE-off lapse was due."
)
ASSUMPTIONS = [
    "SP conversion fills (MARKET_ON_CLOSE persistence / in-play BSP) are excluded by construction: they take the starting price by exchange rule (covered by C04/C08)",
    "FOK VWAP clause: exact VWAP may miss the limit by < 0.005 because the code and the exchange API carry 2dp average prices; the reported 2dp average must satisfy the limit exactly",
]


@st.composite
def case(draw, tier="quick"):
    spec = world.default_market(0, 2, bsp_market=False)
    ri = 0
    if draw(st.integers(0, 4)) == 0:
        # handicap market: one selection id on two lines, the order goes on the 0.0 line which is listed second;
        # the other line carries a different book
        spec["market_type"] = "ASIAN_HANDICAP"
        spec["number_of_winners"] = 0
        spec["runners"] = [{"id": 1001, "hc": draw(st.sampled_from([-1.0, 0.5])), "af": None}, {"id": 1001, "hc": 0, "af": None}]
        ri = 1
    prices = world.ladder_prices(spec)
    nt = len(prices)
    mid = draw(st.integers(8, 330))
    maxl = 6
    atb, atl = draw(gen.book_side_pair(nt, mid, max_levels=maxl))
    side = draw(st.sampled_from(["BACK", "LAY"]))
    ref_side = atb if side == "BACK" else atl
    if ref_side:
        ref = ref_side[0][0]
    else:
        ref = mid
    sgn = -1 if side == "BACK" else 1
    rel = draw(st.sampled_from(["through", "through", "through", "at", "at", "behind1", "far"]))
    if rel == "through" and ref_side:
        # through by k levels: price = tick of level k (or beyond the last)
        k = draw(st.integers(1, 5))
        if k < len(ref_side):
            tick = ref_side[k][0] + draw(st.sampled_from([0, 0, -sgn]))
        else:
            tick = ref_side[-1][0] + sgn * draw(st.integers(1, 3))
    elif rel == "through":
        tick = ref + sgn * draw(st.integers(1, 5))
    elif rel == "at":
        tick = ref
    elif rel == "behind1":
        tick = ref - sgn
    else:
        tick = ref - sgn * draw(st.integers(5, 30))
    tick = max(0, min(nt - 1, tick))
    # size relative to the levels
    if ref_side and draw(st.integers(0, 2)):
        cum = 0
        opts = []
        for t, s in ref_side:
            cum = round(cum + s, 2)
            opts += [round(cum - 0.01, 2), cum, round(cum + 0.01, 2)]
        size = max(0.01, draw(st.sampled_from(opts)))
    else:
        size = gen.size_c(draw, 1, 20000) / 100
    vwap_cut = draw(st.integers(0, 7)) == 0
    if vwap_cut:
        # directed: fill-or-kill priced strictly between the best and the second level; the best level is small, the
        # second could fill the rest but drags the volume-weighted price beyond the limit - the order is killed
        t0 = max(8, min(nt - 9, mid))
        s0 = gen.size_c(draw, 100, 500) / 100
        x = round(s0 * draw(st.sampled_from([2, 3, 5])) + draw(st.sampled_from([0, 0.01])), 2)
        lv = [[t0, s0], [t0 + 2 * sgn, round(x + draw(st.sampled_from([0, 0.01, 5.0])), 2)], [t0 + 5 * sgn, 40.0]]
        if side == "BACK":
            atb = lv
        else:
            atl = lv
        tick = t0 + sgn
        size = round(s0 + x, 2)
    vwap_border = (not vwap_cut) and draw(st.integers(0, 7)) == 0
    if vwap_border:
        # directed: fill-or-kill through the best price over three levels whose exact volume-weighted price misses the
        # limit by 0.0055-0.009 (rounds to one cent beyond the limit): the third level must be refused and the order
        # killed, however the running average happened to round on the way
        t0 = max(12, min(nt - 13, mid))
        a_, b_ = draw(st.integers(2, 6)), draw(st.integers(1, 3))
        c_ = b_ + draw(st.integers(1, 4))
        L_ = prices[t0]
        p0, p1, p2 = prices[t0 - sgn * a_], prices[t0 + sgn * b_], prices[t0 + sgn * c_]
        s0 = gen.size_c(draw, 500, 3000) / 100
        bound = s0 * abs(p0 - L_) / abs(L_ - p1)
        s1 = max(0.01, round(bound * draw(st.sampled_from([0.3, 0.5, 0.7, 0.9])), 2))
        delta = draw(st.sampled_from([0.0055, 0.006, 0.007, 0.009]))
        tgt = L_ - delta if side == "BACK" else L_ + delta
        s2 = round(abs(p0 * s0 + p1 * s1 - tgt * (s0 + s1)) / abs(tgt - p2), 2)
        if s2 >= 0.01:
            lv = [[t0 - sgn * a_, s0], [t0 + sgn * b_, s1], [t0 + sgn * c_, round(s2 + draw(st.sampled_from([0, 0, 5.0])), 2)]]
            if side == "BACK":
                atb = lv
            else:
                atl = lv
            tick = t0
            size = round(s0 + s1 + s2, 2)
        else:
            vwap_border = False
    op = {"op": "place", "r": ri, "side": side, "type": "LIMIT", "tick": tick, "size": size,
          "pers": draw(st.sampled_from(["LAPSE", "PERSIST"]))}
    if vwap_border:
        op["tif"] = "FILL_OR_KILL"
        op["min_fill"] = draw(st.sampled_from([None, None, round(s0 + s1 + 0.01, 2)]))
    elif vwap_cut:
        op["tif"] = "FILL_OR_KILL"
        op["min_fill"] = draw(st.sampled_from([None, size, round(s0 + 0.01, 2), round(size - 0.01, 2)]))
    elif draw(st.integers(0, 1)):
        op["tif"] = "FILL_OR_KILL"
        c = draw(st.integers(0, 5))
        op["min_fill"] = [None, round(max(0.01, size / 2), 2), size, round(size + 0.01, 2), 0.01,
                          round(max(0.01, size - 0.01), 2)][c]
    steps = [{"dt": 1000, "k": "book", "rc": [{"r": ri, "atb": atb, "atl": atl}]}]
    if ri:
        oa, ob = draw(gen.book_side_pair(nt, max(3, min(nt - 4, mid + draw(st.integers(-8, 8)))), max_levels=4, allow_empty=False))
        steps[0]["rc"].insert(0, {"r": 0, "atb": oa, "atl": ob})
    # the executing update carries a *different* book
    atb2, atl2 = draw(gen.book_side_pair(nt, max(3, min(nt - 4, mid + draw(st.integers(-6, 6)))), max_levels=4))
    steps.append({"dt": 1000, "k": "book", "rc": [{"r": ri, "atb": atb2, "atl": atl2}]})
    if draw(st.integers(0, 2)) == 0:
        # the executing update also reports traded volume around the limit: whatever the order does not take on
        # arrival is offered this volume in the same cycle (a killed fill-or-kill order must not take any of it)
        steps[-1]["rc"][-1]["trd"] = [[max(0, min(nt - 1, tick + draw(st.integers(-2, 2)))), gen.size_c(draw, 2, 20000) / 100]
                                       for _ in range(draw(st.integers(1, 2)))]
    if ri == 0 and draw(st.integers(0, 4)) == 0:
        # starting-price market: the market turns in-play and the starting price is reconciled while the order may
        # still rest (keep-in-play orders survive the turn): a LIMIT order is never converted to a starting-price bet
        spec["bsp_market"] = True
        op["pers"] = draw(st.sampled_from(["PERSIST", "PERSIST", "LAPSE"]))
        sp = prices[max(0, min(nt - 1, tick + draw(st.sampled_from([-40, -15, 15, 40]))))]
        steps.append({"dt": 1000, "k": "inplay", "status": "OPEN", "bet_delay": 1, "bump": True, "bsp": [sp, 3.0]})
    for _ in range(draw(st.integers(0, 6))):
        if draw(st.integers(0, 3)) == 0:
            a, b = draw(gen.book_side_pair(nt, max(3, min(nt - 4, mid + draw(st.integers(-6, 6)))), max_levels=3))
            rc = {"r": ri, "atb": a, "atl": b}
        else:
            rc = {"r": ri}
        trd = []
        for _ in range(draw(st.integers(1, 3))):
            trd.append([max(0, min(nt - 1, tick + draw(st.integers(-4, 4)))), gen.size_c(draw, 2, 20000) / 100])
        rc["trd"] = trd
        steps.append({"dt": draw(st.sampled_from([50, 200, 1000])), "k": "book", "rc": [rc]})
    ops = [op]
    if ri == 0 and draw(st.integers(0, 4)) == 0:
        # the order shares its place package with a plain order on the other runner, which is declared a non-runner
        # (and the pending order on it voided) 50 ms later, inside the place latency: the package then holds an
        # order that completed in flight - every other instruction must still be executed for ITS order
        ops = [{"op": "txn", "ops": [{"op": "place", "r": 1, "side": "BACK", "type": "LIMIT", "tick": mid, "size": 2.0, "pers": "LAPSE"}, op]}]
        steps.insert(1, {"dt": 50, "k": "remove", "r": 1, "af": 10.0})
    spec["steps"] = steps
    return {
        "markets": [spec],
        "strategies": [gen.strategy_spec("A", script=[{"m": 0, "at": 1, "ops": ops}])],
        "clients": [{"bpe": draw(st.integers(0, 2)) > 0, "full_match": draw(st.integers(0, 7)) == 0,
                     "min_bet_validation": False}],
        "config": {},
    }


def check(sc):
    lb = simlab.run_scenario(sc)
    if lb.error is not None:
        raise crash_violation(lb.error, sc, "run-aborted")
    spec = sc["markets"][0]
    prices = world.ladder_prices(spec)
    op = sc["strategies"][0]["script"][0]["ops"][0]
    shared_package = op["op"] == "txn"
    if shared_package:
        op = op["ops"][1]
    side, limit, size = op["side"], prices[op["tick"]], op["size"]
    fok = op.get("tif") == "FILL_OR_KILL"
    min_fill = op.get("min_fill") or size
    bpe = sc["clients"][0]["bpe"]
    full = sc["clients"][0]["full_match"]
    r = lb.renderers[0]
    ri = op.get("r", 0)
    target = (spec["runners"][ri]["id"], spec["runners"][ri].get("hc", 0))
    # book prevailing before the executing update (update index 2; 3 when the non-runner update precedes it)
    snap = r.updates[2 if shared_package else 1].books[ri]
    snap_pt = r.updates[2 if shared_package else 1].pt
    book = snap["atb"] if side == "BACK" else snap["atl"]  # [(price, size)] best first
    level = {p: s for p, s in book}
    best = book[0][0] if book else None
    classes = {"side:" + side, "fok" if fok else "plain", "bpe-on" if bpe else "bpe-off"}
    if shared_package:
        classes.add("package-shared-with-order-completed-in-flight")
    if spec.get("bsp_market"):
        classes.add("starting-price-reconciled-while-resting")
    if ri:
        classes.add("handicap-line-0.0-listed-second")
    if full:
        classes.add("full-match")
    if best is None:
        classes.add("rel:empty-side")
    elif (side == "BACK" and limit < best) or (side == "LAY" and limit > best):
        classes.add("rel:through")
    elif limit == best:
        classes.add("rel:at")
    else:
        classes.add("rel:behind")
    if fok:
        mf = op.get("min_fill")
        classes.add("minfill:" + ("absent" if mf is None else "above" if mf > size else "equal" if mf == size else "below"))

    def worse(p):
        return p < limit if side == "BACK" else p > limit

    seen = 0
    arrival_n = None
    first_ack = None
    order_seen = False
    final = None
    for rec in lb.log:
        for o in rec.get("orders", ()):
            if (o["sel"], o["hc"]) != target:
                continue  # the other order of a shared package
            order_seen = True
            final = o
            where = "%s@%s" % (rec["cb"], rec["idx"])
            if o["status"] == "PENDING":
                if o["matched"]:
                    raise Violation("pending-has-fills", (), "fragments %s while PENDING at %s" % (o["matched"], where), sc)
                continue
            frs = o["matched"]
            if first_ack is None:
                first_ack = where
                # fragments stamped with the time of the book the placement was executed against are the arrival
                # fills; anything else in this first acknowledged snapshot was gained passively in the same cycle
                arrival = [f for f in frs if f[0] == snap_pt]
                arrival_n = len(arrival)
                if frs[:arrival_n] != arrival:
                    arrival_n, arrival = len(frs), frs  # (not separable: judge all as arrival fills)
                elif len(frs) > arrival_n:
                    classes.add("passive-fill-in-the-arrival-cycle")
                # ---- arrival clauses
                if not fok:
                    for pt, p, s in arrival:
                        if worse(p):
                            raise Violation("fill-worse-than-limit", (side, "arrival"),
                                            "fragment at %s for %s limit %s (book %s)" % (p, side, limit, book), sc)
                elif arrival:
                    num = sum(Fraction(str(p)) * Fraction(str(s)) for _, p, s in arrival)
                    den = sum(Fraction(str(s)) for _, p, s in arrival)
                    vw = num / den
                    lim = Fraction(str(limit))
                    bad = vw < lim - Fraction(5, 1000) if side == "BACK" else vw > lim + Fraction(5, 1000)
                    apm = o["apm"]
                    bad2 = apm < limit if side == "BACK" else apm > limit
                    if bad or bad2:
                        raise Violation("fok-vwap-breaches-limit", (side,), "VWAP %s (reported %s) vs %s limit %s; fragments %s" % (
                            float(vw), apm, side, limit, arrival), sc)
                if not full:
                    taken = {}
                    for pt, p, s in arrival:
                        taken[p] = round(taken.get(p, 0) + s, 2)
                    for p, s in taken.items():
                        if p not in level:
                            raise Violation("fill-at-price-not-in-book", (side,), "fragment price %s not a level of the snapshot book %s (look-ahead or invented level)" % (p, book), sc)
                        if s > level[p] + 1e-9:
                            raise Violation("took-more-than-available", (side,), "took %s at %s, level had %s" % (s, p, level[p]), sc)
                else:
                    classes.add("full-match")
                if fok:
                    sm = o["sm"]
                    if not (sm == 0 or sm >= min_fill - 1e-9):
                        raise Violation("fok-partial-below-min-fill", (side,), "size_matched %s < min_fill %s" % (sm, min_fill), sc)
                if (not bpe) and best is not None and ((side == "BACK" and best > limit) or (side == "LAY" and best < limit)):
                    classes.add("bpe-lapse-expected")
                    invalid_min_fill = fok and min_fill > size  # rejected before the price is looked at
                    if o["sm"] != 0 or o["sr"] != 0 or (abs(o["sl"] - size) > 1e-9 and not invalid_min_fill):
                        raise Violation("bpe-off-filled-through-price", (side,), "BPE off, best %s better than limit %s: matched %s lapsed %s" % (
                            best, limit, o["sm"], o["sl"]), sc)
            # ---- every acknowledged snapshot
            if fok:
                if o["sr"] != 0:
                    raise Violation("fok-rests", (side,), "FOK order has remaining %s at %s (status %s)" % (o["sr"], where, o["status"]), sc)
                if len(frs) != arrival_n:
                    raise Violation("fok-filled-later", (side,), "FOK order gained fragments after arrival: %s" % (frs,), sc)
                if not o["complete"]:
                    # completion is applied before strategies are called
                    raise Violation("fok-not-complete", (side, o["status"]), "FOK order status %s at %s" % (o["status"], where), sc)
            for pt, p, s in frs[arrival_n:]:
                if worse(p):
                    raise Violation("fill-worse-than-limit", (side, "passive"), "passive fragment at %s, limit %s" % (p, limit), sc)
                if p != limit:
                    raise Violation("passive-fill-not-at-limit", (side,), "passive fragment at %s, limit %s" % (p, limit), sc)
            if (not bpe) and "bpe-lapse-expected" in classes and frs:
                raise Violation("bpe-off-filled-through-price", (side, "later"), "lapsed order gained fragments %s" % (frs,), sc)
            seen = len(frs)
    if not order_seen:
        classes.add("order-refused")
        return False, classes
    if arrival_n:
        classes.add("arrival-fill")
        if len({p for _, p, _ in final["matched"][:arrival_n]}) > 1:
            classes.add("crossed>1-level")
    if final and len(final["matched"]) > (arrival_n or 0):
        classes.add("passive-fill")
    nt = bool(final and final["matched"]) or fok or "bpe-lapse-expected" in classes
    return nt, classes


def check_resting(sc):
    """Resting orders (scenarios of the C06 generator: 1-6 resting orders, traded updates with several prices): what
    a resting order gains out of one update is at its own limit price and is covered by volume that traded in that
    update AT OR THROUGH its limit (half the reported amount) - trades at a worse price never fill it."""
    from . import c06

    lb = simlab.run_scenario(sc, snapshot_cbs=("process_market_book",))
    if lb.error is not None:
        raise crash_violation(lb.error, sc, "run-aborted")
    ups = lb.renderers[0].updates
    epoch = __import__("datetime").datetime(1970, 1, 1)
    pt2idx = {u.pt: u.idx for u in ups}
    hist = {}
    for rec in lb.log:
        u = pt2idx[int(round((rec["pt"] - epoch).total_seconds() * 1000))]
        for o in rec["orders"]:
            hist.setdefault(o["oid"], {})[u] = o
    classes = set()
    nt = False
    for oid, h in hist.items():
        us = sorted(h)
        ack = next((u for u in us if h[u]["status"] != "PENDING"), None)
        if ack is None:
            continue
        side, limit = h[ack]["side"], h[ack]["price"]
        prev = 0.0
        allowed = Fraction(0)
        chunks = 0
        for u in range(ack, len(ups)):
            delta = ups[u].traded_delta[sc.get("_ri", 0)]
            el = {p: v for p, v in delta.items() if c06.eligible(side, limit, p)}
            allowed += sum(Fraction(str(v)) for v in el.values()) / 2
            chunks += len(el)
            snap = h.get(u)
            if snap is None:
                continue
            passive = 0.0
            for t, p, sz in snap["matched"]:
                if t == ups[ack - 1].pt:
                    if ((side == "BACK" and p < limit) or (side == "LAY" and p > limit)) and not sc.get("_removal"):
                        raise Violation("fill-worse-than-limit", (side, "arrival"), "fragment at %s for limit %s" % (p, limit), sc)
                    continue
                if p != limit and not sc.get("_removal"):  # (a runner removal re-prices the fragments of the other runners)
                    raise Violation("passive-fill-not-at-limit", (side,), "passive fragment at %s, limit %s" % (p, limit), sc)
                passive += sz
            passive = round(passive, 2)
            if passive > float(allowed) + 0.005 * chunks + 1e-6:
                worse = {p: v for p, v in delta.items() if p not in el}
                raise Violation("resting-order-filled-by-trades-beyond-its-limit", (side,),
                                "%s order limit %s: passive fill %s after update %d, but only %s (half of the reported volume) traded at or through the limit since it arrived; this update traded %s of which at a worse price %s" % (
                                    side, limit, passive, u, float(allowed), delta, worse), sc)
            if passive > prev:
                classes.add("passive-fill")
                if any(not c06.eligible(side, limit, p) for p in delta):
                    nt = True
                    classes.add("passive-fill-in-update-straddling-the-limit")
            prev = passive
    return nt, classes


@st.composite
def replace_case(draw, tier="quick"):
    """an order rests behind the book and is then replaced to a price through / at / behind the best price of the book
    prevailing when the replace executes: the replacement is a new bet and is taken like a fresh placement"""
    spec = world.default_market(0, 2, bsp_market=False)
    prices = world.ladder_prices(spec)
    nt = len(prices)
    mid = draw(st.integers(40, 300))
    side = draw(st.sampled_from(["BACK", "LAY"]))
    sgn = -1 if side == "BACK" else 1
    atb, atl = draw(gen.book_side_pair(nt, mid, max_levels=5, allow_empty=False))
    ref_side = atb if side == "BACK" else atl
    ref = ref_side[0][0]
    rest_tick = max(0, min(nt - 1, ref - sgn * draw(st.integers(3, 12))))
    size = gen.size_c(draw, 100, 20000) / 100
    place = {"op": "place", "r": 0, "side": side, "type": "LIMIT", "tick": rest_tick, "size": size,
             "pers": draw(st.sampled_from(["LAPSE", "PERSIST"]))}
    steps = [{"dt": 1000, "k": "book", "rc": [{"r": 0, "atb": atb, "atl": atl}]},
             {"dt": 1000, "k": "book", "rc": []}]
    if draw(st.integers(0, 2)) == 0:
        # the book moves (never through the resting order) before the replace is requested
        atb, atl = draw(gen.book_side_pair(nt, max(30, min(nt - 30, mid + draw(st.integers(-2, 2)))), max_levels=5, allow_empty=False))
        steps[1]["rc"] = [{"r": 0, "atb": atb, "atl": atl}]
        ref_side = atb if side == "BACK" else atl
        ref = ref_side[0][0]
    rel = draw(st.sampled_from(["through", "through", "through", "at", "behind"]))
    if rel == "through":
        k = draw(st.integers(1, 4))
        new_tick = ref_side[k][0] if k < len(ref_side) else ref_side[-1][0] + sgn * draw(st.integers(1, 3))
    elif rel == "at":
        new_tick = ref
    else:
        new_tick = ref - sgn * draw(st.integers(1, 2))
    new_tick = max(0, min(nt - 1, new_tick))
    if new_tick == rest_tick:
        new_tick = max(0, min(nt - 1, new_tick + sgn))
    # the update that executes the replace carries a different book (look-ahead would show)
    a2, b2 = draw(gen.book_side_pair(nt, max(30, min(nt - 30, mid + draw(st.integers(-6, 6)))), max_levels=4))
    steps.append({"dt": 1000, "k": "book", "rc": [{"r": 0, "atb": a2, "atl": b2}]})
    for _ in range(draw(st.integers(1, 3))):
        trd = [[max(0, min(nt - 1, new_tick + draw(st.integers(-3, 3)))), gen.size_c(draw, 2, 20000) / 100]]
        steps.append({"dt": draw(st.sampled_from([50, 200, 1000])), "k": "book", "rc": [{"r": 0, "trd": trd}]})
    spec["steps"] = steps
    script = [{"m": 0, "at": 1, "ops": [place]}, {"m": 0, "at": 2, "ops": [{"op": "replace", "o": 0, "tick": new_tick}]}]
    return {"markets": [spec], "strategies": [gen.strategy_spec("A", script=script)],
            "clients": [{"bpe": draw(st.integers(0, 2)) == 0, "full_match": False, "min_bet_validation": False}],
            "config": {}, "_replace": True}


def check_replace(sc):
    lb = simlab.run_scenario(sc)
    if lb.error is not None:
        raise crash_violation(lb.error, sc, "run-aborted")
    spec = sc["markets"][0]
    prices = world.ladder_prices(spec)
    script = sc["strategies"][0]["script"]
    if len(script) < 2 or not script[0]["ops"] or not script[1]["ops"]:
        return False, {"minimised-away"}
    op, rop = script[0]["ops"][0], script[1]["ops"][0]
    if op.get("op") != "place" or rop.get("op") != "replace":
        return False, {"minimised-away"}
    side, size = op["side"], op["size"]
    limit = prices[rop["tick"]]
    bpe = sc["clients"][0]["bpe"]
    ups = lb.renderers[0].updates
    if len(ups) < 4:
        return False, {"minimised-away"}
    snap = ups[2].books[0]  # the book prevailing before the update that executes the replace
    book = snap["atb"] if side == "BACK" else snap["atl"]
    level = {p: s for p, s in book}
    best = book[0][0] if book else None
    classes = {"replace", "side:" + side, "bpe-on" if bpe else "bpe-off"}
    first_oid = None
    acked = False
    nt = False
    for rec in lb.log:
        for o in rec.get("orders", ()):
            if first_oid is None:
                first_oid = o["oid"]
            if o["oid"] == first_oid:
                continue
            where = "%s@%s" % (rec["cb"], rec["idx"])
            if o["status"] == "PENDING":
                if o["matched"]:
                    raise Violation("pending-has-fills", ("replacement",), "fragments %s while PENDING at %s" % (o["matched"], where), sc)
                continue
            frs = o["matched"]
            if not acked:
                acked = True
                arrival_n = len(frs)
                classes.add("replacement-acknowledged")
                through = best is not None and ((side == "BACK" and best > limit) or (side == "LAY" and best < limit))
                classes.add("rel:through" if through else "rel:at-or-behind")
                for pt, p, s_ in frs:
                    if (side == "BACK" and p < limit) or (side == "LAY" and p > limit):
                        raise Violation("fill-worse-than-limit", (side, "replacement"), "fragment at %s for %s limit %s (book %s)" % (p, side, limit, book), sc)
                taken = {}
                for pt, p, s_ in frs:
                    taken[p] = round(taken.get(p, 0) + s_, 2)
                for p, s_ in taken.items():
                    if p not in level:
                        raise Violation("fill-at-price-not-in-book", (side, "replacement"), "fragment price %s not a level of the snapshot book %s" % (p, book), sc)
                    if s_ > level[p] + 1e-9:
                        raise Violation("took-more-than-available", (side, "replacement"), "took %s at %s, level had %s" % (s_, p, level[p]), sc)
                if frs:
                    nt = True
                    classes.add("replacement-arrival-fill")
                if (not bpe) and through:
                    nt = True
                    classes.add("bpe-lapse-expected")
                    if o["sm"] != 0 or o["sr"] != 0 or abs(o["sl"] - o["size"]) > 1e-9:
                        raise Violation("bpe-off-filled-through-price", (side, "replacement"),
                                        "BPE off, best %s better than the replacement's limit %s: matched %s remaining %s lapsed %s of %s" % (
                                            best, limit, o["sm"], o["sr"], o["sl"], o["size"]), sc)
            else:
                for pt, p, s_ in frs[arrival_n:]:
                    if p != limit:
                        raise Violation("passive-fill-not-at-limit", (side, "replacement"), "passive fragment at %s, limit %s" % (p, limit), sc)
                if "bpe-lapse-expected" in classes and frs:
                    raise Violation("bpe-off-filled-through-price", (side, "replacement-later"), "lapsed replacement gained fragments %s" % (frs,), sc)
    if not acked:
        # a replacement whose placement is refused at the (simulated) exchange is never registered
        through = best is not None and ((side == "BACK" and best > limit) or (side == "LAY" and best < limit))
        if (not bpe) and through:
            nt = True
            classes.add("bpe-lapse:replacement-refused-and-never-registered")
        else:
            classes.add("replacement-not-registered-for-another-reason")
    return nt, classes


def sub_replace(col, budget, seed, tier, shard, nshards):
    run_given(col, replace_case(tier), check_replace, budget, seed, tier, "replace")


def sub_place(col, budget, seed, tier, shard, nshards):
    run_given(col, case(tier), check, budget, seed, tier, "place")


def sub_resting(col, budget, seed, tier, shard, nshards):
    from . import c06

    run_given(col, c06.scenario(tier), check_resting, budget, seed, tier, "resting")


def subchecks(tier):
    return [SubCheck("place", sub_place, 6000 if tier == "quick" else 300000),
            SubCheck("resting", sub_resting, 1500 if tier == "quick" else 40000),
            SubCheck("replace", sub_replace, 1200 if tier == "quick" else 40000)]


def replay(c, sub=None):
    if sub == "replace" or c.get("_replace"):
        check_replace(c)
    elif sub == "resting" or "strategies" in c:
        check_resting(c)
    else:
        check(c)
