"""shared configuration generators / runners for the E2s state-machine properties"""
from hypothesis import strategies as st

from .. import world, gen
from ..common import run_machine, Violation
from ..machine import SimWorld, make_machine, replay_trace


@st.composite
def base_cfg(draw, limits="loose", multi_strategy=True, tx_limits=(5000,), custom_control=False, market_types=("WIN", "WIN", "PLACE", "MATCH_ODDS"), handicaps=False, line=False, extra=None, market_limit=False):
    nr = draw(st.integers(2, 4))
    mt = draw(st.sampled_from(list(market_types)))
    spec = world.default_market(0, nr)
    spec["market_type"] = mt
    if mt == "PLACE":
        spec["number_of_winners"] = 2 if nr > 2 else 1
    if line and draw(st.integers(0, 4)) == 0:
        iv = draw(st.sampled_from([0.5, 1.0]))
        # short ranges (total-goals style 0.5 .. 10.5) make lines below 2.0 common; long ones as for runs / points
        spec["ladder"] = {"type": "LINE_RANGE", "min": 0.5, "max": 0.5 + draw(st.sampled_from([10, 20, 400])) * iv, "interval": iv}
        spec["betting_type"] = "LINE"
        spec["market_type"] = mt = "LINE"
    if handicaps and draw(st.integers(0, 2)) == 0:
        # asian-handicap style: the same selection id on several handicap lines
        spec["market_type"] = mt = "ASIAN_HANDICAP"
        spec["number_of_winners"] = 0
        spec["runners"] = [{"id": 1001 + (i % 2), "hc": [-0.5, 0.5, -1.5, 1.5][i], "af": None} for i in range(nr)]
    spec["bsp_market"] = mt not in ("MATCH_ODDS", "ASIAN_HANDICAP", "LINE") and draw(st.integers(0, 3)) > 0
    spec["persistence_enabled"] = draw(st.integers(0, 5)) > 0
    ns = draw(st.integers(1, 3)) if multi_strategy else 1
    nc = draw(st.integers(1, 2))
    strategies = []
    for i in range(ns):
        s = gen.strategy_spec("S%d" % i, client=draw(st.integers(0, nc - 1)))
        if limits == "tight":
            # (a limit of 0 is valid: nothing that adds risk may be sent)
            s["max_order_exposure"] = draw(st.sampled_from([None, 2, 5, 10, 25, 100]))
            s["max_selection_exposure"] = draw(st.sampled_from([None, 0, 2, 5, 10, 25, 100]))
            s["max_market_exposure"] = draw(st.sampled_from([None, None, 0, 5, 10, 25, 100]))
        elif limits == "some":
            s["max_order_exposure"] = draw(st.sampled_from([None, 10, 100]))
            s["max_selection_exposure"] = draw(st.sampled_from([None, 25, 100]))
        if market_limit and draw(st.booleans()):
            # the optional per-market limit: the control then evaluates Blotter.market_exposure for every request
            s["max_market_exposure"] = draw(st.sampled_from([30, 1000]))
        if limits != "none":
            s["max_trade_count"] = draw(st.sampled_from([1, 2, 3, 10**6, 10**6]))
            s["max_live_trade_count"] = draw(st.sampled_from([1, 2, 3, 10**6]))
            s["multi_order_trades"] = draw(st.booleans())
        strategies.append(s)
    clients = [{"min_bet_validation": draw(st.integers(0, 3)) == 0, "tx_limit": draw(st.sampled_from(list(tx_limits))),
                "bpe": draw(st.integers(0, 4)) > 0} for _ in range(nc)]
    cfg = {"market": spec, "strategies": strategies, "clients": clients, "config": {}}
    if draw(st.integers(0, 2)) == 0:
        cfg["config"] = {"place_latency": 0.0, "cancel_latency": 0.0, "update_latency": 0.0, "replace_latency": 0.0}
    if draw(st.integers(0, 3)) == 0:
        cfg["config"] = dict(cfg["config"], simulated_strategy_isolation=False)  # the per-instance matching path
    if custom_control and draw(st.integers(0, 2)) == 0:
        cfg["custom_control"] = {"kinds": draw(st.sampled_from([["cancel"], ["update", "replace"], ["place", "cancel", "update", "replace"]])),
                                 "parity": draw(st.integers(0, 1))}
    if extra:
        cfg.update(extra)
    return cfg


def run(col, world_cls, checks, cfg_strategy, budget, steps, seed, tier, sub, rule_weights=None):
    M = make_machine(world_cls, checks, cfg_strategy, rule_weights)

    def replay_fn(trace):
        replay_trace(world_cls, checks, trace)

    run_machine(col, M, budget, steps, seed, tier, sub, replay_fn=replay_fn)
