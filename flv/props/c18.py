"""C18 - The transaction-limit control counts exactly and blocks when exceeded."""
import datetime as dt

from hypothesis import strategies as st

from ..common import SubCheck
from ..machine import SimWorld, replay_trace, sname
from . import _machines as M

PROPERTY = "C18"
LEVEL = "exploration"
SHARDS = {"quick": 8, "thorough": 16}
RULE = (
    "Rule-based state machine over a real stepped FlumineSimulation with 1-2 clients (transaction_limit in {None, 0, 3, "
    "10, 5000}), strategies without exposure / trade limits so that only the client control can refuse while the market "
    "is open: single requests and transactions of 0-n placements / cancels / updates / replaces, forced and non-forced, "
    "failures produced by suspending the market before the simulated execution, clock advanced by ms .. seconds .. "
    "3500 s / 3600 s / 3700 s / 86400 s (same hour next day) / 90000 s between requests. Shadow model: totals = executed "
    "place + replace instructions + FAILURE replies; hourly = the same since the last restart; a restart happens at a "
    "non-forced request that reaches the client control in a clock hour different from the last restart. Every request "
    "outcome is compared with the model (refused iff limit set and hourly total > limit), counters compared after "
    "every step, per client. Non-trivial: a trace that crosses an hour boundary while blocked or a forced request while "
    "blocked; distinct = distinct trace JSON."
)
ASSUMPTIONS = [
    "strategies are configured so that no trading control other than the client's transaction control can refuse while the market is OPEN; requests made while it is not OPEN are refused by MarketValidation before the client control is reached (no hour check then)",
    "concurrent completion of executions is explored at handler granularity: generated live schedules run queued execution tasks in any order (sub-check live); the lock inside add_transaction is not reachable by generated schedules",
]
CHECKS = ("counters", "noeffect")


def hour_key(now):
    n = now + dt.timedelta(hours=1)
    return (n.date(), n.hour)


class World(SimWorld):
    def __init__(self, checks, cfg):
        self.replace_live = {}
        super().__init__(checks, cfg)
        self.model = {}
        for cl in self.lab.clients:
            self.model[cl.username] = {"key": None, "base_total": 0, "blocked_seen": False}
        self.crossed_hour_blocked = False

    def client_of(self, strat):
        return self.lab.clients[strat.sspec.get("client", 0)]

    def owner_of(self, order):
        # the client the order was accepted through: its strategy's, unless it was routed through another one
        return self.owner_override.get(id(order)) or self.client_of(order.trade.strategy)

    def feed(self, step):
        # instructions of a replace package = its orders that are not complete when it is executed (orders that
        # completed while the request was in flight are not sent): statuses just before the update that executes it
        for p in self.fw.handler_queue:
            if p.package_type.name == "REPLACE":
                self.replace_live[id(p)] = sum(1 for o in p._orders if o.status.name != "EXECUTION_COMPLETE")
        super().feed(step)

    # independent recount of what the execution layer has processed for a client
    def shadow_total(self, client):
        queue = list(self.fw.handler_queue)
        tot = 0
        for p in self.lab.packages:
            # the client an order belongs to is the one its strategy trades through (not whatever the order object says)
            owner = self.owner_of(p._orders[0]) if p._orders else p.client
            if owner is not client or any(p is q for q in queue):
                continue
            k = p.package_type.name
            if k == "PLACE":
                tot += len(p._orders)
            elif k == "REPLACE":
                tot += self.replace_live.get(id(p), len(p._orders))
        for o in self.shadow_orders:
            if self.owner_of(o) is client:
                tot += sum(1 for r in o.responses.cancel_responses if r.status == "FAILURE")
                tot += sum(1 for r in o.responses.update_responses if r.status == "FAILURE")
        return tot

    def check_tx_decision(self, rec):
        order = rec["order"]
        strat = order.trade.strategy
        if rec["res"].error and "does not match transaction client" in rec["res"].error:
            # (an order routed through another client, addressed in a transaction of the strategy's usual client:
            #  rejected with an error before any control is consulted)
            self.classes.add("request-in-another-clients-transaction")
            return
        client = rec.get("via_client") or self.owner_of(order)
        m = self.model[client.username]
        now = dt.datetime.utcnow()
        status = self.market.market_book.status
        if rec["force"]:
            if m["key"] is not None and client.transaction_limit is not None and self.hourly(client, m) > client.transaction_limit:
                self.classes.add("forced-request-while-blocked")
                self.nontrivial = True
                if not rec["accepted"] and not rec["res"].error:
                    self.fail("forced-request-refused", (rec["kind"],), "forced request refused while the client is over its limit")
            return
        if status != "OPEN":
            return  # refused by MarketValidation before the client control
        # the request reaches the client's control: restart rule, then the decision
        k = hour_key(now)
        if m["key"] != k:
            if m["key"] is not None and self.hourly(client, m) > (client.transaction_limit if client.transaction_limit is not None else 10**12):
                self.crossed_hour_blocked = True
                self.classes.add("hour-change-while-blocked")
                self.nontrivial = True
            m["key"] = k
            m["base_total"] = self.shadow_total(client)
            self.classes.add("hourly-restart")
        hourly = self.hourly(client, m)
        lim = client.transaction_limit
        should_refuse = lim is not None and hourly > lim
        # (the controls run before the order's own state guard: a request that the guard rejects with an error
        #  has passed the client control)
        refused = rec["res"].result is False and not rec["res"].error
        if refused != should_refuse:
            self.fail("transaction-limit-decision", ("refused-below-limit" if refused else "accepted-over-limit", rec["kind"]),
                      "client %s limit %s: hourly transactions %d (total %d), request %s at %s was %s" % (
                          client.username, lim, hourly, self.shadow_total(client), rec["kind"], now, "refused" if refused else "accepted"))
        if should_refuse:
            self.classes.add("blocked")
        if lim is None:
            self.classes.add("client-without-limit")

    def hourly(self, client, m):
        return self.shadow_total(client) - m["base_total"]

    def after_boundary(self):
        if "counters" not in self.checks:
            return
        for client in self.lab.clients:
            m = self.model[client.username]
            tot = self.shadow_total(client)
            got = client.transaction_count_total
            if got != tot:
                self.fail("total-transaction-count", ("over" if got > tot else "under",), "client %s: transaction_count_total %s, executed instructions + failures %s" % (client.username, got, tot))
            if m["key"] is not None:
                exp = tot - m["base_total"]
                got = client.current_transaction_count_total
                if got != exp:
                    self.fail("hourly-transaction-count", ("over" if got > exp else "under",), "client %s: hourly count %s, model %s (total %s, at last restart %s)" % (
                        client.username, got, exp, tot, m["base_total"]))


@st.composite
def cfg(draw):
    c = draw(M.base_cfg(limits="none", multi_strategy=True, tx_limits=(None, 0, 3, 3, 10, 5000), market_types=("WIN", "MATCH_ODDS")))
    for cl in c["clients"]:
        cl["min_bet_validation"] = False
    c["market"]["persistence_enabled"] = True
    c["no_cooldowns"] = True
    return c


def make():
    from ..machine import make_machine
    from .. import gen

    Base = make_machine(World, CHECKS, cfg(), {"remove": 0, "close": 0, "inplay": 0, "place_existing": 0, "txn": 2, "book": 3, "bulk": 1, "cancel_batch": 1, "resubmit": 2})  # resubmit: an order refused by a control is submitted again

    from hypothesis.stateful import rule

    class Mach(Base):
        def dts(self):
            return [1, 200, 1000, 5000]

        def place_kw(self):
            return dict(kinds=("LIMIT",), sp=False, sizes="level", fok=False, mv=False)

        @rule(dt_=st.sampled_from([60_000, 3_500_000, 3_600_000, 3_700_000, 86_400_000, 90_000_000, 7_200_000]))
        def jump(self, dt_):
            self._do({"_": "book", "dt": dt_, "rc": []})

    return Mach


def sub_machine(col, budget, seed, tier, shard, nshards):
    from ..common import run_machine

    def replay_fn(trace):
        replay_trace(World, CHECKS, trace)

    run_machine(col, make(), budget, 35 if tier == "quick" else 70, seed, tier, "counters", replay_fn=replay_fn)


# ---- live world: executions finishing in any order (handler granularity) on the live double ---------------------


def live_invariant(d, op):
    from ..common import Violation

    lab = d.lab
    exp = sum(n for (name, tr, n) in lab.call_log if tr is None and name in ("placeOrders", "replaceOrders")) + sum(lab.reported_failed)
    got = lab.client.transaction_count_total
    if got != exp:
        raise Violation("total-transaction-count", ("over" if got > exp else "under", "live"),
                        "after %s: transaction_count_total %s, instructions submitted in answered calls + failed instructions reported %s (calls %s)" % (
                            op["op"], got, exp, lab.call_log[-6:]), d.c)
    d.classes.add("live-count-checked")
    if len(lab.pool.queue) >= 2:
        d.classes.add("several-executions-outstanding")
        d.nontrivial = True


def check_live(c):
    from . import c11

    return c11.check(c, after_op=live_invariant, convergence=False)


def sub_live(col, budget, seed, tier, shard, nshards):
    from ..common import run_given
    from . import c11

    run_given(col, c11.schedule(tier), check_live, budget, seed, tier, "live")


def subchecks(tier):
    q = tier == "quick"
    return [SubCheck("counters", sub_machine, 900 if q else 40000), SubCheck("live", sub_live, 3000 if q else 150000)]


def replay(case, sub=None):
    if isinstance(case, dict) and "ops" in case:
        check_live(case)
    else:
        replay_trace(World, CHECKS, case)
