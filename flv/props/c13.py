"""C13 - Strategies are isolated from each other and from callback errors."""
import copy
import json

from hypothesis import strategies as st

from .. import gen, simlab, world
from ..common import SubCheck, Violation, run_given, crash_violation

PROPERTY = "C13"
LEVEL = "exploration"
SHARDS = {"quick": 8, "thorough": 16}
RULE = (
    "(i) Metamorphic: strategy A (generated script) is run alone, as {A,B}, {B,A} and {A,B,C} over the same generated "
    "stream files with strategy isolation on (B, C: generated scripts on the same runners, shared or own client); A's "
    "normalised ledger (per order: selection, side, type, price, size, status log, fragments, buckets, timestamps, "
    "profit) must be identical. (ii) Fault injection with raise_errors False: an exception (FlumineException or plain) "
    "raised in B at a drawn (callback kind in check_market_book / process_market_book / process_orders / "
    "process_new_market / a middleware call, invocation index); A's ledger and received update sequence must equal the "
    "no-fault run, every strategy gets every update once, middleware runs before strategies. (iii) direct dispatch of "
    "raw-data, sports-data and custom events on a live Flumine with a raising strategy. (i-b) event groups: A on one "
    "market, B on that market and a shorter sibling recording of the same event (event_processing); A alone vs {A,B} / "
    "{B,A}. Non-trivial: B placed >= 1 "
    "order on a runner where A has an order that received a passive fill, or a fault that actually fired."
)
ASSUMPTIONS = [
    "client transaction limits are left at the default (5000) so the shared client-level control is never the cause of a difference",
    "process_closed_market is not in the property's list of contained callbacks and is not fault-injected",
]

CBS = ["check_market_book", "process_market_book", "process_orders", "process_new_market", "middleware"]


@st.composite
def scenario(draw, tier="quick"):
    nr = 2
    spec = world.default_market(0, nr, bsp_market=draw(st.booleans()))
    n = draw(st.integers(4, 12 if tier == "quick" else 30))
    feats = {"remove": draw(st.integers(0, 1)), "suspend": 1, "inplay": 1, "books": 2, "trades": 5, "max_dt_ms": 5000}
    steps, states = draw(gen.timeline(spec, n, feats))
    spec["steps"] = steps
    kw = dict(kinds=("LIMIT", "LIMIT", "LIMIT", "MOC") if spec["bsp_market"] else ("LIMIT",), sp=spec["bsp_market"],
              sizes="level", runners=[0, 0, 1])
    scripts = {name: draw(gen.script(spec, states, max_entries=5, max_ops=3, place_kw=kw)) for name in "ABC"}
    own_client = draw(st.booleans())
    fault = None
    if draw(st.integers(0, 3)) > 0:
        fault = {"cb": draw(st.sampled_from(CBS)), "n": draw(st.integers(0, 12)), "exc": draw(st.sampled_from(["flumine", "plain"]))}
        if fault["cb"] != "middleware" and draw(st.integers(0, 2)) == 0:
            # B's code fails while it looks at the real clock through the documented helper (simulated_datetime.real_time())
            fault["in_real_time"] = True
            fault["exc"] = "plain"
    filters = {}
    if steps and steps[-1]["k"] == "close" and draw(st.integers(0, 2)) == 0:
        # strategies with different listener filters on the same file (each filter set gets its own stream); only
        # for recordings that end with the closure, after which the simulation drops the market
        for name in "ABC":
            filters[name] = draw(st.sampled_from([{}, {}, {"inplay": True}, {"inplay": False}, {"seconds_to_start": 10},
                                                  {"max_inplay_seconds": 5}, {"inplay": True, "max_inplay_seconds": 20}]))
    txn_raise = None
    if draw(st.integers(0, 3)) == 0:
        # B batches requests in `with market.transaction()` and its code raises inside the block after they were accepted
        k = draw(st.integers(1, max(1, len(states) - 2)))
        txn_raise = {"at": k, "ops": [draw(gen.place_op(spec, states[min(k, len(states) - 1)], nr, **kw)) for _ in range(draw(st.integers(1, 3)))]}
    return {"market": spec, "scripts": scripts, "own_client": own_client, "fault": fault, "filters": filters, "txn_raise": txn_raise,
            "limits": draw(st.sampled_from([{}, {"max_live_trade_count": 2}, {"max_selection_exposure": 50, "max_order_exposure": 30}]))}


@st.composite
def resting_case(draw, tier="quick"):
    """focused: all three strategies rest orders on the same runner at nearby prices, with queues ahead, and
    small trades arrive - the situation in which sharing traded volume between strategies shows"""
    spec = world.default_market(0, 2, bsp_market=False)
    nt = len(world.ladder_prices(spec))
    mid = draw(st.integers(20, 300))

    def lvl():
        return draw(st.sampled_from([0.5, 2.0, 10.0, 37.5, 120.0]))
    atb = [[mid - 1 - i, lvl()] for i in range(4) if draw(st.integers(0, 3))]
    atl = [[mid + 1 + i, lvl()] for i in range(4) if draw(st.integers(0, 3))]
    steps = [{"dt": 1000, "k": "book", "rc": [{"r": 0, "atb": atb, "atl": atl}]}]
    scripts = {}
    for name in "ABC":
        ops = []
        for _ in range(draw(st.integers(1, 3))):
            side = draw(st.sampled_from(["BACK", "LAY"]))
            tick = mid + draw(st.integers(0, 4)) if side == "BACK" else mid - draw(st.integers(0, 4))
            ops.append({"op": "place", "r": 0, "side": side, "type": "LIMIT", "tick": max(0, min(nt - 1, tick)),
                        "size": gen.size_c(draw, 50, 3000) / 100, "pers": "PERSIST"})
        scripts[name] = [{"m": 0, "at": draw(st.integers(1, 2)), "ops": ops}]
    for _ in range(draw(st.integers(2, 10))):
        trd = [[max(0, min(nt - 1, mid + draw(st.integers(-5, 5)))), gen.size_c(draw, 2, 6000) / 100]
               for _ in range(draw(st.integers(1, 3)))]
        steps.append({"dt": draw(st.sampled_from([200, 1000])), "k": "book", "rc": [{"r": 0, "trd": trd}]})
    steps.append({"dt": 1000, "k": "suspend", "bump": True})
    steps.append({"dt": 1000, "k": "close", "results": ["WINNER", "LOSER"]})
    spec["steps"] = steps
    return {"market": spec, "scripts": scripts, "own_client": draw(st.booleans()), "fault": None, "limits": {}}


def build(c, names, fault=None, txn=None):
    strategies = []
    for i, n in enumerate(names):
        s = gen.strategy_spec(n, client=(0 if (n == "A" or not c["own_client"]) else 1), script=copy.deepcopy(c["scripts"][n]))
        if txn and n == "B" and c.get("txn_raise"):
            tr = c["txn_raise"]
            ops = copy.deepcopy(tr["ops"]) + ([{"op": "raise"}] if txn == "raise" else [])
            # B's own scripted entries at that update are dropped so that the block is the last thing the callback does
            s["script"] = [e for e in s["script"] if e["at"] != tr["at"]] + [{"m": 0, "at": tr["at"], "ops": [{"op": "txn", "ops": ops}]}]
        s.update(c["limits"])
        steps_ = c["market"]["steps"]
        if (c.get("filters") or {}).get(n) and steps_ and steps_[-1]["k"] == "close":
            # (a minimised case that lost its closing step runs without filters: see scenario())
            s["listener_kwargs"] = dict(c["filters"][n])
        if fault and n == "B" and fault["cb"] != "middleware":
            s["fault"] = fault
        strategies.append(s)
    sc = {"markets": [copy.deepcopy(c["market"])], "strategies": strategies,
          "clients": [{"min_bet_validation": False}, {"min_bet_validation": False}], "config": {"raise_errors": False},
          "record_mw": True}
    if fault and fault["cb"] == "middleware":
        sc["mw_fault"] = fault
    return sc


def run(c, names, fault=None, txn=None):
    sc = build(c, names, fault, txn)
    with simlab.lab(sc, snapshots=False) as lb:
        lb.run()
        if lb.error is not None:
            raise crash_violation(lb.error, c, "run-aborted[%s%s]" % ("+".join(names), ",fault" if fault else ""))
        led = {n: simlab.ledger(lb, n) for n in names}
        seq = {n: [(r["market"], r["now"], r["cb"]) for r in lb.log if r["strategy"] == n and r["cb"] in ("check_market_book", "process_closed_market", "process_orders")]
               for n in names}
        order = [(r["cb"], r["strategy"], r["now"]) for r in lb.log if r["cb"] in ("middleware", "check_market_book")]
        return led, seq, order, lb.fault_fired, lb


def diff(a, b):
    if a == b:
        return None
    for i, (x, y) in enumerate(zip(a["orders"], b["orders"])):
        if x != y:
            ks = [k for k in x if x[k] != y.get(k)]
            return "order %d differs in %s: %s vs %s" % (i, ks, {k: x[k] for k in ks}, {k: y[k] for k in ks})
    if len(a["orders"]) != len(b["orders"]):
        return "number of orders %d vs %d" % (len(a["orders"]), len(b["orders"]))
    return "op results differ: %s vs %s" % (a["ops"], b["ops"])


KNOWN_FACT = "only-with-separate-streams-of-one-file"


def ledger_violation(c, names, base, led, clause, facts, what, fault=None):
    """A's ledger differs.  One root cause is singled out by an extra fact (recorded as a known finding): strategies
    with different listener filters get one stream each and the recording is replayed once per stream into the SAME
    kept market / blotter / middleware state, so e.g. an order still live when the first pass closed the market is
    matched again by the replayed volume of the next pass, and a runner removal recorded by an earlier pass is not
    applied to orders placed in a later one.  The attribution is differential: the same strategies are run again with
    every co-runner given A's own filter (one shared stream); only if A's ledger then equals its solo ledger is the
    difference put down to the separate streams."""
    flt = c.get("filters") or {}
    steps_ = c["market"]["steps"]
    n_streams = len({json.dumps(flt.get(n) or {}, sort_keys=True) for n in names}) if steps_ and steps_[-1]["k"] == "close" else 1
    if n_streams > 1:
        c2 = copy.deepcopy(c)
        c2["filters"] = {n: dict(flt.get("A") or {}) for n in "ABC"}
        led2 = run(c2, names, fault)[0]
        if led2["A"] == base:
            facts = tuple(facts) + (KNOWN_FACT,)
    return Violation(clause, facts, what, c)


def check(c):
    classes = set()
    flt = c.get("filters") or {}
    if len({json.dumps(flt.get(n) or {}, sort_keys=True) for n in "ABC"}) > 1:
        classes.add("strategies-with-different-listener-filters")
    base, seq0, _, _, lb0 = run(c, ["A"])
    ups = lb0.renderers[0].updates
    nontrivial = False
    steps_ = c["market"]["steps"]
    if len({json.dumps(flt.get(n) or {}, sort_keys=True) for n in "ABC"}) > 1 and steps_ and steps_[-1]["k"] == "close":
        # separate streams of one file: every pass over the recording calls process_orders of every strategy with
        # orders in the kept market (the root cause recorded as a known finding) - only the updates are compared
        def _core(x):
            return {k: [e for e in v if e[2] != "process_orders"] for k, v in x.items()}
    else:
        def _core(x):
            return x
    seq0 = _core(seq0)
    for names in (["A", "B"], ["B", "A"], ["A", "B", "C"], ["C", "B", "A"]):
        led, seq, order, _, lb = run(c, names)
        seq = _core(seq)
        d = diff(base["A"], led["A"])
        if d:
            if seq["A"] != seq0["A"]:
                raise Violation("update-sequence-differs", ("+".join(names),), "A's received updates differ when run with %s" % names, c)
            raise ledger_violation(c, names, base["A"], led["A"], "ledger-depends-on-co-running-strategies", ("+".join(names),),
                                   "A alone vs %s: %s" % (names, d))
        if seq["A"] != seq0["A"]:
            raise Violation("update-sequence-differs", ("+".join(names),), "A's received updates differ when run with %s" % names, c)
        if names == ["A", "B"]:
            a_passive = {o["sel"] for o in led["A"]["orders"] if o["matched"]}
            b_sel = {o["sel"] for o in led["B"]["orders"] if "PENDING" in o["status_log"]}
            if a_passive & b_sel:
                nontrivial = True
                classes.add("B-orders-on-runner-where-A-filled")
    # ---- fault injection
    if c["fault"]:
        f = c["fault"]
        for fnames in (["A", "B"], ["B", "A"]):
          led, seq, order, fired, lb = run(c, fnames, f)
          seq = _core(seq)
          if fired:
              nontrivial = True
              classes.add("fault:%s:%s" % (f["cb"], f["exc"]))
              d = diff(base["A"], led["A"])
              if d:
                  raise ledger_violation(c, fnames, base["A"], led["A"], "callback-error-not-contained", (f["cb"], f["exc"], "ledger"),
                                         "fault in B's %s #%d changed A: %s" % (f["cb"], f["n"], d), fault=f)
              if seq["A"] != seq0["A"]:
                  raise Violation("callback-error-not-contained", (f["cb"], f["exc"], "updates"), "fault in B's %s #%d: A received %d updates instead of %d" % (
                      f["cb"], f["n"], len(seq["A"]), len(seq0["A"])), c)
              # B still gets every update exactly once (check_market_book for every non-closed update)
              exp = [u.pt for u in ups if u.status != "CLOSED"]
              got = [int(round((t - __import__("datetime").datetime(1970, 1, 1)).total_seconds() * 1000)) for m, t, cb in seq["B"] if cb == "check_market_book"]
              if got != exp and not flt.get("B"):
                  raise Violation("callback-error-not-contained", (f["cb"], f["exc"], "faulty-strategy-updates"),
                                  "after its fault B received %d of %d updates" % (len(got), len(exp)), c)
              # middleware before strategies at every update
              last_mw = None
              for cb, sname, now in order:
                  if cb == "middleware":
                      last_mw = now
                  elif last_mw != now:
                      raise Violation("middleware-not-before-strategies", (f["cb"],), "strategy %s called at %s without the middleware having run for that update" % (sname, now), c)
              # framework order state stays consistent (C04 invariants for every order, B's included)
              for o in lb.all_orders():
                  if o.order_type.ORDER_TYPE.name == "LIMIT" and o.status_log and o.status_log[0].name == "PENDING":
                      s = o.simulated
                      tot = s.size_matched + s.size_remaining + s.size_cancelled + s.size_lapsed + s.size_voided
                      if abs(tot - o.order_type.size) > 0.0051 or s.size_remaining < 0:
                          raise Violation("order-state-inconsistent-after-fault", (f["cb"],), "order buckets %s size %s" % (
                              (s.size_matched, s.size_remaining, s.size_cancelled, s.size_lapsed, s.size_voided), o.order_type.size), c)
          else:
            classes.add("fault-not-reached")
    # ---- an exception raised inside a transaction block of B's callback, after requests were accepted
    if c.get("txn_raise"):
        led_ok, _, _, _, _ = run(c, ["A", "B"], txn="plain")
        led_ex, seq_ex, _, fired, _ = run(c, ["A", "B"], txn="raise")
        if fired:
            nontrivial = True
            classes.add("exception-inside-transaction-block")
            # (the op log necessarily differs: the block's own entry is only written when it ends normally)
            d = diff({"orders": led_ok["B"]["orders"], "ops": []}, {"orders": led_ex["B"]["orders"], "ops": []})
            if d:
                raise Violation("callback-error-not-contained", ("transaction-block", "requests-accepted-before-the-exception"),
                                "B raised inside `with market.transaction()` after its requests were accepted; compared with the same block ending normally: %s" % d, c)
            d = diff(led_ok["A"], led_ex["A"])
            if d:
                raise ledger_violation(c, ["A", "B"], led_ok["A"], led_ex["A"], "callback-error-not-contained", ("transaction-block", "other-strategy"),
                                       "B's exception inside a transaction block changed A: %s" % d)
    return nontrivial, classes


# ---- (i-b) event groups: A on one market, B on that market and on a sibling of the same event ----------------


@st.composite
def eg_case(draw, tier="quick"):
    """two markets of one event processed as an event group (event_processing): A subscribes to market 0 only, B to
    both; the sibling's recording is short and ends (with or without a closure) while market 0 still runs - typically
    while a request of A is waiting for its latency.  A's ledger must not depend on B or on the sibling."""
    specs = []
    for mi in range(2):
        spec = world.default_market(mi, 2, event=0, bsp_market=False)
        spec["start_pt"] = world.BASE_PT + mi * draw(st.sampled_from([1, 7, 500, 2500]))
        specs.append(spec)
    n0 = draw(st.integers(5, 12 if tier == "quick" else 24))
    feats0 = {"remove": 0, "suspend": 1, "inplay": 1, "books": 2, "trades": 5, "max_dt_ms": 5000}
    steps0, states0 = draw(gen.timeline(specs[0], n0, feats0))
    specs[0]["steps"] = steps0
    n1 = draw(st.integers(1, 4))
    feats1 = {"remove": 0, "suspend": 0, "inplay": 0, "books": 2, "trades": 3, "max_dt_ms": 5000, "close": draw(st.booleans())}
    steps1, states1 = draw(gen.timeline(specs[1], n1, feats1))
    specs[1]["steps"] = steps1
    kw = dict(kinds=("LIMIT",), sp=False, sizes="level", runners=[0, 0, 1])
    a = draw(gen.script(specs[0], states0, mi=0, max_entries=6, max_ops=3, place_kw=kw, follow_weight=2))
    b = draw(gen.script(specs[0], states0, mi=0, max_entries=3, max_ops=2, place_kw=kw)) if draw(st.booleans()) else []
    b += draw(gen.script(specs[1], states1, mi=1, max_entries=3, max_ops=2, place_kw=kw))
    return {"eg": True, "markets": specs, "a": a, "b": b, "own_client": draw(st.booleans()),
            "config": draw(st.sampled_from([{}, {}, {"place_latency": 1.2, "cancel_latency": 1.2, "replace_latency": 1.2, "update_latency": 1.2}]))}


def run_eg(c, names):
    strategies = []
    for n in names:
        if n == "A":
            strategies.append(gen.strategy_spec("A", client=0, script=copy.deepcopy(c["a"]), markets=[0]))
        else:
            strategies.append(gen.strategy_spec("B", client=1 if c["own_client"] else 0, script=copy.deepcopy(c["b"]), markets=[0, 1]))
    sc = {"markets": copy.deepcopy(c["markets"]), "strategies": strategies, "event_processing": True,
          "clients": [{"min_bet_validation": False}, {"min_bet_validation": False}],
          "config": dict(c.get("config") or {}, raise_errors=False)}
    with simlab.lab(sc, snapshots=False) as lb:
        lb.run()
        if lb.error is not None:
            raise crash_violation(lb.error, c, "run-aborted[%s,event-group]" % "+".join(names))
        seq = [(r["market"], r["now"], r["cb"]) for r in lb.log if r["strategy"] == "A" and r["cb"] in ("check_market_book", "process_closed_market", "process_orders")]
        return simlab.ledger(lb, "A"), seq, ("B" in names and bool(simlab.ledger(lb, "B")["orders"]))


def check_eg(c):
    if len(c.get("markets", ())) < 2:
        return False, {"minimised-away"}
    base, seq0, _ = run_eg(c, ["A"])
    nontrivial = False
    classes = {"event-group"}
    for names in (["A", "B"], ["B", "A"]):
        led, seq, b_traded = run_eg(c, names)
        if seq != seq0:
            raise Violation("update-sequence-differs", ("+".join(names), "event-group"),
                            "A (market 0 only) received %d updates alone and %d when B also follows the sibling market" % (len(seq0), len(seq)), c)
        d = diff(base, led)
        if d:
            raise Violation("ledger-depends-on-co-running-strategies", ("+".join(names), "event-group"),
                            "A alone vs %s (B also on the sibling market of the event): %s" % (names, d), c)
        if base["orders"]:
            nontrivial = True
            if b_traded:
                classes.add("B-traded")
    return nontrivial, classes


def sub_eg(col, budget, seed, tier, shard, nshards):
    run_given(col, eg_case(tier), check_eg, budget, seed, tier, "event_group")


# ---- (iii) direct dispatch: raw data, sports data, custom events -------------------------------


@st.composite
def dispatch_case(draw):
    return {"kind": draw(st.sampled_from(["raw", "sports", "custom", "sim-sports", "sim-sports"])), "exc": draw(st.sampled_from(["flumine", "plain", "declines"])),
            "order": draw(st.sampled_from(["AB", "BA", "ABA2"])), "n": draw(st.integers(1, 4))}


def check_dispatch(c):
    from flumine import Flumine, BaseStrategy, clients
    from flumine.events import events
    from flumine.exceptions import FlumineException
    import types

    calls = []

    class S(BaseStrategy):
        def __init__(self, name, bad):
            super().__init__(market_filter={}, name=name)
            self.bad = bad

        def _boom(self):
            if self.bad:
                raise FlumineException("injected") if c["exc"] == "flumine" else RuntimeError("injected")

        def process_raw_data(self, clk, publish_time, datum):
            calls.append((self.name, "raw", datum.get("id")))
            self._boom()

        def check_sports_data(self, market, sports_data):
            calls.append((self.name, "check_sports", None))
            if self.bad and c["exc"] == "declines":
                return False  # a strategy that is not interested in sports data (the default behaviour)
            self._boom()
            return True

        def process_sports_data(self, market, sports_data):
            calls.append((self.name, "sports", None))

        @property
        def stream_ids(self):
            return [7]

    with simlab.clean_config({"raise_errors": False}):
        fw = Flumine(clients.BetfairClient(betting_client=None, username="d", order_stream=False))
        names = {"AB": ["A", "B"], "BA": ["B", "A"], "ABA2": ["A", "B", "A2"]}[c["order"]]
        for n in names:
            fw.strategies(S(n, n == "B"), fw.clients, fw)
        good = [n for n in names if n != "B"]
        try:
            if c["kind"] == "raw":
                data = [{"id": "1.%d" % (100 + i), "rc": []} for i in range(c["n"])]
                fw._process_raw_data(events.RawDataEvent((7, "clk", 1, data)))
                for d in data:
                    for g in good + ["B"]:
                        if calls.count((g, "raw", d["id"])) != 1:
                            raise Violation("raw-data-not-delivered", (c["exc"],), "strategy %s got datum %s %d times" % (g, d["id"], calls.count((g, "raw", d["id"]))), c)
            elif c["kind"] == "sim-sports":
                # the simulation's replay of recorded sports data (SimulatedSportsDataMiddleware), driven with prepared
                # updates: every strategy that accepts sports data gets every due update, whatever the others do
                from flumine.markets.middleware import SimulatedSportsDataMiddleware

                mw = SimulatedSportsDataMiddleware("cricketSubscription", "/nonexistent")
                ups = [[types.SimpleNamespace(market_id="1.100", publish_time_epoch=1000 + i, streaming_unique_id=7)] for i in range(c["n"])]
                mw._next = ups[0]
                mw._gen = iter(ups[1:])
                market = types.SimpleNamespace(market_id="1.100", flumine=fw,
                                               market_book=types.SimpleNamespace(publish_time_epoch=10**9, streaming_unique_id=7))
                mw(market)
                for g in good:
                    if calls.count((g, "sports", None)) != c["n"]:
                        raise Violation("sports-data-not-delivered", (c["exc"], "simulated-middleware", c["order"]),
                                        "strategy %s processed %d of %d replayed sports updates" % (g, calls.count((g, "sports", None)), c["n"]), c)
            elif c["kind"] == "sports":
                fw._add_market("1.100", None)
                sd = types.SimpleNamespace(market_id="1.100", streaming_unique_id=7)
                fw._process_sports_data(events.SportsDataEvent([sd] * c["n"]))
                for g in good:
                    if calls.count((g, "sports", None)) != c["n"]:
                        raise Violation("sports-data-not-delivered", (c["exc"],), "strategy %s processed %d of %d sports updates" % (g, calls.count((g, "sports", None)), c["n"]), c)
            else:
                seen = []

                def cb(flumine, event):
                    seen.append(event.event)
                    raise FlumineException("injected") if c["exc"] == "flumine" else RuntimeError("injected")

                def cb2(flumine, event):
                    seen.append(event.event)

                fw._process_custom_event(events.CustomEvent("x", cb))
                fw._process_custom_event(events.CustomEvent("y", cb2))
                if seen != ["x", "y"]:
                    raise Violation("custom-event-error-not-contained", (c["exc"],), "callbacks seen %s" % seen, c)
        except Violation:
            raise
        except Exception as e:
            raise Violation("callback-error-not-contained", (c["kind"], c["exc"], "escaped"), "%s escaped from dispatch: %s" % (type(e).__name__, e), c)
        finally:
            fw.simulated_execution.shutdown()
            fw.betfair_execution.shutdown()
            fw.betdaq_execution.shutdown()
    return True, ("dispatch:" + c["kind"],)


def sub_runs(col, budget, seed, tier, shard, nshards):
    run_given(col, scenario(tier), check, budget, seed, tier, "runs")


def sub_resting(col, budget, seed, tier, shard, nshards):
    run_given(col, resting_case(tier), check, budget, seed, tier, "resting")


def sub_dispatch(col, budget, seed, tier, shard, nshards):
    run_given(col, dispatch_case(), check_dispatch, budget, seed, tier, "dispatch")


def subchecks(tier):
    q = tier == "quick"
    return [SubCheck("runs", sub_runs, 1600 if q else 40000), SubCheck("resting", sub_resting, 1200 if q else 40000),
            SubCheck("dispatch", sub_dispatch, 160 if q else 2000), SubCheck("event_group", sub_eg, 500 if q else 20000)]


def replay(c, sub=None):
    if "kind" in c and "scripts" not in c:
        check_dispatch(c)
    elif c.get("eg"):
        check_eg(c)
    else:
        check(c)
