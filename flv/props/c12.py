"""C12 - Exchange call faults never strand an order or lose a transaction count."""
import itertools

from .. import livedouble, simlab, world
from ..common import SubCheck, Violation, crash_violation

PROPERTY = "C12"
LEVEL = "fault_enumeration"
ALL_EXHAUSTIVE = True
SHARDS = {"quick": 8, "thorough": 16}
RULE = (
    "Exhaustive fault enumeration. LIVE (real Flumine + BetfairExecution + betfairlightweight request/response code "
    "against the exchange double): kind in {place, cancel, update, replace} x package size 1-3 x per-instruction outcome "
    "(place: SUCCESS, SUCCESS fully matched, EXPIRED, FAILURE, TIMEOUT, TIMEOUT-but-accepted, async PENDING; cancel: "
    "SUCCESS, FAILURE BET_TAKEN_OR_LAPSED, FAILURE other, TIMEOUT; update: SUCCESS, FAILURE, TIMEOUT; replace: SUCCESS, "
    "FAILURE BET_TAKEN_OR_LAPSED, FAILURE other, TIMEOUT, cancelled-but-placement-failed) x subset of orders completed "
    "between request and response (order-stream update delivered while the call is in flight, or before the call "
    "starts) or partly matched at the exchange with the stream update still outstanding x cancel reports reversed / one missing x transport fault on attempts 1..4 (connection error, HTTP 500, "
    "garbage body, JSON-RPC error, error after the exchange applied the request). SIMULATED (stepped "
    "FlumineSimulation): kind x size 1-3 x per-order fate between request and execution (none / fully matched / lapsed "
    "on suspension / voided by runner removal) x market OPEN or SUSPENDED at execution. The quick tier enumerates the whole "
    "space for packages of 1-3 (about 44k combinations). Non-trivial: every combination with a non-SUCCESS "
    "element, a transport fault or an order completed in between; distinct = the enumerated tuple. The thorough tier "
    "adds packages of four orders (transport faults on the first attempt only)."
)
ASSUMPTIONS = [
    "the exchange double answers with the documented JSON-RPC shapes; reports may be reordered / dropped only for cancelOrders (as the property states)",
    "Betdaq execution is outside (per the statement)",
    "after each live combination the latest full order image is delivered once, then local orders are compared with the double's bet table",
]

PLACE_OUT = ["SUCCESS", "SUCCESS_MATCHED", "SUCCESS_EXPIRED", "FAILURE:INSUFFICIENT_FUNDS", "TIMEOUT", "TIMEOUT_ACCEPTED"]
CANCEL_OUT = ["SUCCESS", "FAILURE:BET_TAKEN_OR_LAPSED", "FAILURE:INVALID_BET_ID", "TIMEOUT"]
UPDATE_OUT = ["SUCCESS", "FAILURE:BET_TAKEN_OR_LAPSED", "TIMEOUT"]
REPLACE_OUT = ["SUCCESS", "FAILURE:BET_TAKEN_OR_LAPSED", "FAILURE:INVALID_BET_ID", "TIMEOUT", "CANCELLED_PLACE_FAILED"]
TRANSPORT = [None] + [(k, t) for k in (1, 3, 4) for t in ("connection", "http500", "garbage", "rpc-error")] + [(1, "applied-then-connection")]
INFLIGHT = ("CANCELLING", "UPDATING", "REPLACING")


def live_combos(tier):
    out = []
    for kind, outs in (("place", PLACE_OUT), ("cancel", CANCEL_OUT), ("update", UPDATE_OUT), ("replace", REPLACE_OUT)):
        for n in ((1, 2, 3) if tier == "quick" else (1, 2, 3, 4)):  # thorough: packages of four as well
            for oc in itertools.product(outs, repeat=n):
                subsets = [()] if kind == "place" else [s for r in range(n + 1) for s in itertools.combinations(range(n), r)]
                for done in subsets:
                    whens = ["in-call"] if not done else ["in-call", "before-call"]
                    for when in whens:
                        reps = ["normal", "reversed", "drop0"] if (kind == "cancel" and n > 1) else ["normal"]
                        for rep in reps:
                            for tr in TRANSPORT:
                                if tr and (rep != "normal" or (n >= 3 and tr[0] == 3)) or (n == 4 and tr and tr[0] != 1):
                                    continue
                                out.append({"world": "live", "kind": kind, "n": n, "outcomes": list(oc), "done": list(done), "when": when,
                                            "reports": rep, "transport": list(tr) if tr else None, "async": False})
                                # stream lag: some orders are partly matched at the exchange just before the call and the
                                # stream update has not been seen yet when the response is handled
                                if kind != "place" and not done and rep == "normal" and n <= 2 and (tr is None or tr[0] == 1):
                                    for part in [s_ for r_ in range(1, n + 1) for s_ in itertools.combinations(range(n), r_)]:
                                        out.append({"world": "live", "kind": kind, "n": n, "outcomes": list(oc), "done": [], "when": "in-call",
                                                    "reports": rep, "transport": list(tr) if tr else None, "async": False, "partial": list(part)})
    # async placements: PENDING reports, bet ids arrive through the stream
    for n in (1, 2):
        for tr in (None, (1, "connection")):
            out.append({"world": "live", "kind": "place", "n": n, "outcomes": ["SUCCESS"] * n, "done": [], "when": "in-call",
                        "reports": "normal", "transport": list(tr) if tr else None, "async": True})
    return out


def sim_combos(tier):
    out = []
    fates = ["none", "matched", "lapsed", "voided"]
    for kind in ("place", "cancel", "update", "replace"):
        for n in ((1, 2, 3) if tier == "quick" else (1, 2, 3, 4)):
            for fs in itertools.product(fates if kind != "place" else ["none", "voided"], repeat=n):
                for status in ("OPEN", "SUSPENDED"):
                    for pers in (("LAPSE",) * n, ("PERSIST",) * n) if n == 1 else (("LAPSE",) * n, ("PERSIST", "LAPSE", "PERSIST", "LAPSE")[:n]):
                        out.append({"world": "sim", "kind": kind, "n": n, "fates": list(fs), "exec_status": status, "pers": list(pers)})
                        if kind == "place" and n <= 2:
                            # the placements go into a trade that had already completed (a hedge added later)
                            out.append({"world": "sim", "kind": kind, "n": n, "fates": list(fs), "exec_status": status, "pers": list(pers),
                                        "reuse_completed_trade": True})
    return out


# ------------------------------------------------------------------------------------------
# live
# ------------------------------------------------------------------------------------------


def run_live(c):
    spec = world.default_market(0, 4)
    lab = livedouble.LiveLab([spec], async_place=c.get("async", False))
    try:
        return _run_live(c, lab)
    except Violation:
        raise
    except Exception as e:
        raise crash_violation(e, c, "crash")
    finally:
        lab.close()


def _run_live(c, lab):
    ex = lab.exchange
    lab.feed(0)
    lab.feed(0, {"k": "book", "dt": 1000, "rc": [{"r": i, "atb": [[40, 50.0]], "atl": [[44, 50.0]]} for i in range(4)]})
    m = lab.market(0)
    s = lab.strategies[0]
    kind, n = c["kind"], c["n"]
    orders = [lab.make_order(s, 0, runner=i, side="BACK", tick=60 + i, size=10.0) for i in range(n)]
    if kind != "place":
        # resting, acknowledged orders
        for o in orders:
            m.place_order(o)
        lab.run_all()
        lab.deliver_delta()
        for o in orders:
            if o.status.name != "EXECUTABLE" or o.bet_id is None:
                raise Violation("setup", (), "setup order not executable: %s" % o.status, c)
    tx0 = lab.client.transaction_count_total
    rec0 = dict(ex.instructions_received)
    fail0 = ex.failed_reports
    calls0 = lab.calls
    # ---- the request under test: one package
    with m.transaction() as t:
        for i, o in enumerate(orders):
            if kind == "place":
                ok = t.place_order(o)
            elif kind == "cancel":
                ok = t.cancel_order(o)
            elif kind == "update":
                ok = t.update_order(o, "PERSIST")
            else:
                ok = t.replace_order(o, lab.prices[0][70 + i])
            if not ok:
                raise Violation("setup", (), "request %d refused" % i, c)
    if len(lab.pool.queue) != 1:
        raise Violation("setup", (), "%d tasks queued" % len(lab.pool.queue), c)

    def complete_some(l):
        for i in c["done"]:
            ex.fill(orders[i].bet_id)
        l.deliver_delta()

    if c["done"] and c["when"] == "before-call":
        complete_some(lab)
    for i in c.get("partial", []):
        ex.fill(orders[i].bet_id, 4.0)  # not delivered through the stream until the end
    # plan of calls
    tr = c["transport"]
    plans = []
    if tr:
        plans += [{"transport": tr[1]} for _ in range(tr[0])]
    final = {"outcomes": c["outcomes"]}
    if c["done"] and c["when"] == "in-call":
        final["hook"] = complete_some
    if c["reports"] == "reversed":
        final["reverse_reports"] = True
    elif c["reports"] == "drop0":
        final["drop_report"] = 0
    plans.append(final)
    lab.call_plan = plans
    lab.run_all()
    if lab.pool.queue:
        raise Violation("tasks-left", (), "execution tasks still queued", c)
    calls = lab.calls - calls0
    answered = calls > 0 and (not tr or tr[0] < 4) and lab.call_log[-1][1] is None
    # ---- oracle ------------------------------------------------------------------------------
    facts = (kind, "n=%d" % n)
    if calls > 4:
        raise Violation("too-many-attempts", facts, "%d calls for one package (max 1 + 3 retries)" % calls, c)
    sent_instr = lab.call_log[-1][2] if answered else 0
    for i, o in enumerate(orders):
        st = o.status.name
        oc = c["outcomes"][i] if answered else "UNANSWERED"
        if st in INFLIGHT:
            raise Violation("order-stranded-in-flight", (kind, st, oc.split(":")[0], "done" if i in c["done"] else "live", c["reports"]),
                            "order %d left %s after outcome %s (completed in between: %s, transport %s)" % (i, st, oc, i in c["done"], tr), c)
        if st == "PENDING":
            may = kind == "place" and (oc.startswith("TIMEOUT") or c.get("async"))
            if not may:
                raise Violation("order-stranded-pending", (kind, oc.split(":")[0]), "order %d left PENDING after outcome %s (transport %s)" % (i, oc, tr), c)
        if o.trade.status.name == "PENDING":
            raise Violation("trade-left-pending", (kind,), "trade of order %d left PENDING" % i, c)
    # transaction counts: instructions of the answered call (place / replace) + failed reports of that call
    exp = 0
    if answered:
        if kind in ("place", "replace"):
            exp += sent_instr
        exp += lab.reported_failed[-1] if lab.reported_failed else 0
    got = lab.client.transaction_count_total - tx0
    if got != exp:
        raise Violation("transaction-count", (kind, "over" if got > exp else "under"),
                        "transaction count rose by %d, expected %d (instructions of the answered call %d, failed reports %d; outcomes %s done %s transport %s)" % (
                            got, exp, sent_instr, ex.failed_reports - fail0, c["outcomes"], c["done"], tr), c)
    # ---- convergence with the exchange after the latest image (reports applied to the right orders)
    lab.deliver_image(0)
    if kind == "place" and any(x.startswith("TIMEOUT_ACCEPTED") for x in c["outcomes"]) and answered:
        # the report said TIMEOUT (outcome unknown) and the exchange did take the bet: the local order must not have
        # been declared complete - the strategy could then never cancel a bet that rests (and may match) at the exchange
        for i, o in enumerate(orders):
            if c["outcomes"][i].startswith("TIMEOUT_ACCEPTED") and o.complete:
                b = next((x for x in ex.bets.values() if x.ref == o.customer_order_ref), None)
                if b is not None and b.status == "EXECUTABLE":
                    raise Violation("order-completed-on-timeout-while-bet-rests", (kind,),
                                    "order %d is %s after a TIMEOUT report, bet %s rests at the exchange (%s)" % (i, o.status.name, b.bet_id, b.view()), c)
        return  # bet id of a timed-out synchronous placement is never learnt (judged by C11)
    local = {o.bet_id: o for o in m.blotter if o.bet_id}
    for b in ex.bets.values():
        o = local.get(b.bet_id)
        if o is None:
            if kind == "place" and (not answered or c.get("async")):
                continue
            raise Violation("exchange-bet-unknown-locally", (kind,), "bet %s (%s) has no local order" % (b.bet_id, b.view()), c)
        if o.complete != (b.status == "EXECUTION_COMPLETE"):
            raise Violation("report-applied-to-wrong-order", (kind, "local-complete" if o.complete else "local-live", c["reports"]),
                            "bet %s: local %s, exchange %s; outcomes %s done %s reports %s" % (b.bet_id, o.status.name, b.status, c["outcomes"], c["done"], c["reports"]), c)
        if kind == "replace" and o not in orders:
            src = next((x for x in orders if x.customer_order_ref == b.ref), None)
            if src is None or o.trade is not src.trade or abs(o.order_type.price - b.price) > 1e-9 or abs(o.order_type.size - b.size) > 1e-9:
                raise Violation("replacement-order-wrong", (), "replacement for bet %s: price/size/trade mismatch (%s vs %s)" % (b.bet_id, (o.order_type.price, o.order_type.size), (b.price, b.size)), c)


# ------------------------------------------------------------------------------------------
# simulated
# ------------------------------------------------------------------------------------------


def run_sim(c):
    spec = world.default_market(0, 4, bsp_market=False)
    spec["steps"] = None
    # two clients: the strategy trades through the second one, the first (the framework's default) stays idle
    sc = {"markets": [spec], "strategies": [{"name": "S", "client": 1, "max_order_exposure": None, "max_selection_exposure": None,
                                             "max_trade_count": 10**6, "max_live_trade_count": 10**6}],
          "clients": [{"min_bet_validation": False, "tx_limit": None}, {"min_bet_validation": False, "tx_limit": None}], "config": {}}
    s = simlab.Stepper(sc)
    try:
        return _run_sim(c, s)
    except Violation:
        raise
    except Exception as e:
        raise crash_violation(e, c, "crash")
    finally:
        s.close()


def _run_sim(c, s):
    kind, n = c["kind"], c["n"]
    s.step(0)
    s.step(0, {"k": "book", "dt": 1000, "rc": [{"r": i, "atb": [[40, 50.0]], "atl": [[44, 50.0]]} for i in range(4)]})
    m = s.market(0)
    strat = s.lab.strategies[0]
    client = s.lab.clients[1]
    idle = s.lab.clients[0]
    prices = s.lab.prices[m.market_id]
    ops = [{"op": "place", "r": i, "side": "BACK", "type": "LIMIT", "tick": 60 + i, "size": 10.0, "pers": c["pers"][i]} for i in range(n)]
    first = []
    if c.get("reuse_completed_trade"):
        # one trade per runner is opened and completed first (order fully matched); the package's orders join them
        strat.run_ops(m, m.market_book, [{"op": "place", "r": i, "side": "BACK", "type": "LIMIT", "tick": 60 + i, "size": 2.0, "pers": "LAPSE"} for i in range(n)], 0, 0)
        s.step(0, {"k": "book", "dt": 1000, "rc": [{"r": i, "trd": [[60 + i, 500.0]]} for i in range(n)]})
        first = list(strat.my_orders)
        if any(o.trade.status.name != "COMPLETE" for o in first):
            raise Violation("setup", (), "first trades %s" % [o.trade.status.name for o in first], c)
        for i, op_ in enumerate(ops):
            op_.update(trade=i, reuse_completed_trade=True)
    if kind != "place":
        strat.run_ops(m, m.market_book, ops, 0, 0)
        s.step(0, {"k": "book", "dt": 1000, "rc": []})
        orders = list(strat.my_orders)
        if any(o.status.name != "EXECUTABLE" for o in orders):
            raise Violation("setup", (), "setup orders %s" % [o.status.name for o in orders], c)
    tx0 = client.transaction_count_total
    n_pk = len(s.lab.packages)
    with m.transaction(client=client) as t:
        if kind == "place":
            strat.run_ops(m, m.market_book, ops, 0, 0, transaction=t)
            orders = [o for o in strat.my_orders if not any(o is x for x in first)]
        else:
            for i, o in enumerate(orders):
                if kind == "cancel":
                    t.cancel_order(o)
                elif kind == "update":
                    t.update_order(o, "PERSIST" if o.order_type.persistence_type != "PERSIST" else "LAPSE")
                else:
                    t.replace_order(o, prices[70 + i])
    pk = s.lab.packages[n_pk:]
    if len(pk) != 1:
        raise Violation("setup", (), "%d packages" % len(pk), c)
    # ---- fates between request and execution (all within the latency window)
    suspended = False
    for i, f in enumerate(c["fates"]):
        if f == "matched":
            s.step(0, {"k": "book", "dt": 5, "rc": [{"r": i, "trd": [[60 + i, 500.0]]}]})
        elif f == "voided":
            s.step(0, {"k": "remove", "dt": 5, "r": i, "af": 10})
    if "lapsed" in c["fates"]:
        s.step(0, {"k": "suspend", "dt": 5, "bump": True})
        suspended = True
    if c["exec_status"] == "SUSPENDED" and not suspended:
        s.step(0, {"k": "suspend", "dt": 5, "bump": True})
        suspended = True
    if c["exec_status"] == "OPEN" and suspended:
        s.step(0, {"k": "open", "dt": 5, "bump": False})
    if any(p is q for p in pk for q in s.fw.handler_queue) is False:
        raise Violation("setup", (), "package executed before the fates were applied", c)
    s.step(0, {"k": "book", "dt": 5000, "rc": []})  # execution
    s.step(0, {"k": "book", "dt": 1000, "rc": []})
    # ---- oracle
    for i, o in enumerate(orders):
        st = o.status.name
        fate = c["fates"][i]
        if st in INFLIGHT or st == "PENDING":
            raise Violation("order-stranded-in-flight" if st != "PENDING" else "order-stranded-pending", (kind, st, fate, c["exec_status"]),
                            "order %d left %s (fate %s, market %s at execution)" % (i, st, fate, c["exec_status"]), c)
        if o.trade.status.name == "PENDING":
            raise Violation("trade-left-pending", (kind,), "trade of order %d left PENDING" % i, c)
        if not o.complete and o.trade.status.name != "LIVE":
            raise Violation("trade-not-live-with-live-order", (kind, o.trade.status.name, "joined-completed-trade" if c.get("reuse_completed_trade") else "own-trade", "sim"),
                            "order %d is %s but its trade is %s (log %s)" % (i, st, o.trade.status.name, [x.name for x in o.trade.status_log]), c)
        if c["exec_status"] == "SUSPENDED" and "lapsed" not in c["fates"]:
            pass
        if fate in ("matched", "voided") and not o.complete:
            raise Violation("completed-order-live-again", (kind, fate), "order %d completed (%s) before the response but is %s" % (i, fate, st), c)
        if fate == "lapsed" and _complete_before(c, i) and not o.complete:
            raise Violation("completed-order-live-again", (kind, fate), "order %d lapsed before the response but is %s" % (i, st), c)
    # each instruction report is applied to the order it belongs to: every order of an update / cancel package gets
    # exactly one report, and a successful update leaves the order with the persistence requested FOR THAT ORDER
    if kind in ("update", "cancel"):
        for i, o in enumerate(orders):
            reps = o.responses.update_responses if kind == "update" else o.responses.cancel_responses
            if len(reps) != 1:
                raise Violation("instruction-report-misapplied", (kind, "count", c["fates"][i], "sim"),
                                "order %d (fate %s) has %d %s reports, one instruction was sent for it" % (i, c["fates"][i], len(reps), kind), c)
            if kind == "update" and reps[0].status == "SUCCESS":
                want = "PERSIST" if c["pers"][i] != "PERSIST" else "LAPSE"
                if o.order_type.persistence_type != want:
                    raise Violation("instruction-report-misapplied", (kind, "content", c["fates"][i], "sim"),
                                    "order %d asked for persistence %s, after the successful update it has %s (package persistence requests %s)" % (
                                        i, want, o.order_type.persistence_type, ["PERSIST" if p != "PERSIST" else "LAPSE" for p in c["pers"]]), c)
    # transaction counts: executed place/replace instructions + failed replies
    exp = 0
    if kind in ("place", "replace"):
        exp += len(pk[0]._orders) if kind == "place" else sum(1 for i in range(n) if not _complete_before(c, i))
    for o in orders:
        exp += sum(1 for r in o.responses.cancel_responses if r.status == "FAILURE")
        exp += sum(1 for r in o.responses.update_responses if r.status == "FAILURE")
    got = client.transaction_count_total - tx0
    if got != exp:
        raise Violation("transaction-count", (kind, "over" if got > exp else "under", "sim"),
                        "transaction count rose by %d, expected %d (fates %s, exec %s)" % (got, exp, c["fates"], c["exec_status"]), c)
    if idle.transaction_count_total or idle.trading_controls[0].failed_transaction_count:
        raise Violation("transaction-count", (kind, "charged-to-another-client", "sim"),
                        "the idle default client was charged %s transactions" % idle.transaction_count_total, c)
    for o in m.blotter:
        if o.client is not client:
            raise Violation("order-of-the-request-moved-to-another-client", (kind, "sim"),
                            "order %s (%s) belongs to client %s, the requests were made through %s" % (
                                o.bet_id, o.status.name, getattr(o.client, "username", None), client.username), c)
    # replacement orders belong to the right original
    if kind == "replace":
        for o in m.blotter:
            if o not in orders:
                src = [x for x in orders if x.trade is o.trade]
                if len(src) != 1 or o.selection_id != src[0].selection_id or abs(o.order_type.size - 10.0) > 1e-9:
                    raise Violation("replacement-order-wrong", ("sim",), "replacement order %s size %s on %s" % (o.bet_id, o.order_type.size, o.selection_id), c)


def _complete_before(c, i):
    f = c["fates"][i]
    pers = c["pers"][i]
    if f == "none" and (c["exec_status"] == "SUSPENDED" or "lapsed" in c["fates"]):
        f = "lapsed"  # any suspension before the execution lapses every LAPSE order of the market
    if c["kind"] == "update":
        # BetfairOrder.update switches the local persistence type when the request is made
        pers = "PERSIST" if pers != "PERSIST" else "LAPSE"
    return f in ("matched", "voided") or (f == "lapsed" and pers == "LAPSE")


# ------------------------------------------------------------------------------------------


def run_combo(c):
    if c["world"] == "live":
        run_live(c)
    else:
        run_sim(c)


def nontrivial(c):
    if c["world"] == "live":
        return bool(c["transport"] or c["done"] or c.get("partial") or c["reports"] != "normal" or any(o != "SUCCESS" for o in c["outcomes"]) or c.get("async"))
    return any(f != "none" for f in c["fates"]) or c["exec_status"] != "OPEN"


def sub_enum(world_name):
    def fn(col, budget, seed, tier, shard, nshards):
        combos = live_combos(tier) if world_name == "live" else sim_combos(tier)
        for i, c in enumerate(combos):
            if i % nshards != shard:
                continue
            try:
                run_combo(c)
            except Violation as v:
                if not col.handle(v, c):
                    col.violations.append(dict(col.last_failure, sub=world_name))
                    col.suppressed.add(v.signature)
            col.record(c, nontrivial(c), ("%s:%s:n%d" % (c["world"], c["kind"], c["n"]),), world_name, sample=(i % 997 == 0))
        col.exhaustive[world_name] = True

    return fn


def subchecks(tier):
    return [SubCheck("live", sub_enum("live"), 1), SubCheck("sim", sub_enum("sim"), 1)]


def replay(c, sub=None):
    run_combo(c)
