"""C10 - Trade and runner accounting follows the real state of the orders."""
from ..common import SubCheck
from ..machine import SimWorld, replay_trace
from . import _machines as M

PROPERTY = "C10"
LEVEL = "exploration"
SHARDS = {"quick": 8, "thorough": 16}
RULE = (
    "Rule-based state machine over a real stepped FlumineSimulation: strategies with max_trade_count in {1,2,3,1e6}, "
    "max_live_trade_count in {1,2,3,1e6}, multi_order_trades on/off; trades with reset_seconds / place_reset_seconds "
    "in {0, 0.5, 5}; rules: new single / multi-order trades, further orders in an existing (live or complete) trade, "
    "replaces (new order inside the trade), cancels, market events (fills, lapses, voids, failed placements), failure "
    "responses to in-flight requests, time advance from 1 ms to seconds (several requests in the same simulated "
    "instant). After every step each (strategy, runner) context is recounted from the orders: live trades == placed "
    "trades with an order not complete, trades == distinct placed trades, trade COMPLETE iff all orders complete, no "
    "trade left PENDING; at every accepted placement the limits and cool-downs hold; a refusal for live-trade reasons "
    "never happens when every order on the runner is complete. Non-trivial: a multi-order trade that completed, or "
    "a refusal by a trade limit; distinct = distinct trace JSON."
)
ASSUMPTIONS = [
    "trades flagged pending_orders are outside (as the property says); every created order is submitted to place_order",
    "live world: the C11 schedule generator on the live double (incl. adoption after restart) with the same recount after every operation",
]
CHECKS = ("trades",)


class World(SimWorld):
    pass


def sub_machine(col, budget, seed, tier, shard, nshards):
    M.run(col, World, CHECKS, M.base_cfg(limits="some", handicaps=True), budget, 30 if tier == "quick" else 60, seed, tier, "trades", rule_weights={"resubmit": 1, "overlap_reset": 1})


# ---- live world: the same recount after every operation of a generated live schedule (C11 generator) -----------


def live_invariant(d, op):
    from ..common import Violation

    m = d.lab.market(0)
    if m is None:
        return
    by = {}
    for o in m.blotter:
        by.setdefault((o.trade.strategy, o.lookup), []).append(o)
    for (strat, lk), orders in by.items():
        rc = strat._invested.get(lk)
        if rc is None:
            raise Violation("runner-context-missing", ("live",), "no runner context for %s" % (lk,), d.c)
        trades = []
        for o in orders:
            if o.trade not in trades:
                trades.append(o.trade)
        exp_live = sorted(t.id for t in trades if any(not x.complete for x in t.orders if x.status is not None))
        exp_all = sorted(t.id for t in trades)
        if sorted(rc.trades) != exp_all:
            raise Violation("trade-count-mismatch", ("live",), "runner context counts %d trades, %d distinct trades hold orders (after %s)" % (len(rc.trades), len(exp_all), op["op"]), d.c)
        if sorted(rc.live_trades) != exp_live:
            kindf = "charged-but-complete" if len(rc.live_trades) > len(exp_live) else "live-but-not-charged"
            raise Violation("live-trade-mismatch", (kindf, "live"), "runner context live trades %d, trades with a live order %d after %s; trades: %s" % (
                len(rc.live_trades), len(exp_live), op["op"], [(t.status.name, [x.status.name if x.status else None for x in t.orders]) for t in trades]), d.c)
        for t in trades:
            if t.status.name == "PENDING":
                raise Violation("trade-left-pending", ("live",), "trade PENDING outside a response handler (after %s)" % op["op"], d.c)
            done = all(x.complete for x in t.orders if x.status is not None)
            if (t.status.name == "COMPLETE") != done:
                raise Violation("trade-status-mismatch", (t.status.name, "all-complete" if done else "has-live-order", "live"),
                                "trade %s with orders %s after %s" % (t.status.name, [x.status.name if x.status else None for x in t.orders], op["op"]), d.c)
    d.classes.add("live-accounting-checked")


def check_live(c):
    from . import c11

    return c11.check(c, after_op=live_invariant, convergence=False)


def sub_live(col, budget, seed, tier, shard, nshards):
    from ..common import run_given
    from . import c11

    run_given(col, c11.schedule(tier), check_live, budget, seed, tier, "live")


def subchecks(tier):
    q = tier == "quick"
    return [SubCheck("trades", sub_machine, 1600 if q else 40000), SubCheck("live", sub_live, 5000 if q else 200000)]


def replay(case, sub=None):
    if isinstance(case, dict) and "ops" in case:
        check_live(case)
    else:
        replay_trace(World, CHECKS, case)
