"""C10 - Trade and runner accounting follows the real state of the orders."""
from ..common import SubCheck
from ..machine import SimWorld, replay_trace
from . import _machines as M

PROPERTY = "C10"
LEVEL = "exploration"
SHARDS = {"quick": 8, "thorough": 16}
RULE = (
    "Rule-based state machine over a real stepped FlumineSimulation: strategies with max_trade_count in {1,2,3,1e6}, "
    "max_live_trade_count in {1,2,3,1e6}, multi_order_trades on/off; trades with reset_seconds / place_reset_seconds "
    "in {0, 0.5, 5}; rules: new single / multi-order trades, further orders in an existing (live or complete) trade, "
    "replaces (new order inside the trade), cancels, market events (fills, lapses, voids, failed placements), failure "
    "responses to in-flight requests, time advance from 1 ms to seconds (several requests in the same simulated "
    "instant). After every step each (strategy, runner) context is recounted from the orders: live trades == placed "
    "trades with an order not complete, trades == distinct placed trades, trade COMPLETE iff all orders complete, no "
    "trade left PENDING; at every accepted placement the limits and cool-downs hold; a refusal for live-trade reasons "
    "never happens when every order on the runner is complete. Non-trivial: a multi-order trade that completed, or "
    "a refusal by a trade limit; distinct = distinct trace JSON."
)
ASSUMPTIONS = [
    "trades flagged pending_orders are outside (as the property says); every created order is submitted to place_order",
    "live-exchange histories are exercised on the live double (C11/C12)",
]
CHECKS = ("trades",)


class World(SimWorld):
    pass


def sub_machine(col, budget, seed, tier, shard, nshards):
    M.run(col, World, CHECKS, M.base_cfg(limits="some"), budget, 30 if tier == "quick" else 60, seed, tier, "trades")


def subchecks(tier):
    q = tier == "quick"
    return [SubCheck("trades", sub_machine, 1600 if q else 40000)]


def replay(case, sub=None):
    replay_trace(World, CHECKS, case)
