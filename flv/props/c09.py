"""C09 - Runner removal voids bets on the runner and reduces the others once."""
from hypothesis import strategies as st

from .. import gen, simlab, world
from ..common import SubCheck, Violation, run_given, crash_violation

PROPERTY = "C09"
LEVEL = "exploration"
SHARDS = {"quick": 8, "thorough": 16}
RULE = (
    "Whole simulation runs with orders in every state at the removal (pending, resting, partly filled, partly "
    "cancelled, lapsed, complete, cancel/replace/update in flight, LOC/MOC orders), adjustment factors from {0, 1.0, "
    "2.49, 2.5, 2.51, 10, 40, 99, runner's own, None (no factor published)}, removals before/after in-play, several "
    "removals per market, WIN/PLACE/OTHER_PLACE/EACH_WAY/MATCH_ODDS, and the same selection id + factor removed in "
    "1-3 markets processed by one framework (sequential and event-grouped), default and pre-play-only (inplay=False) listeners. Fragment prices are tracked fragment by "
    "fragment over the whole run. Non-trivial: a removal with >= 1 matched order on another runner or >= 1 order "
    "on the removed runner that was not simply resting; distinct = distinct scenario JSON."
)
ASSUMPTIONS = [
    "non-runner formula for market-on-close LAY liabilities: WIN L*(1 - f/(100 - own_af)), PLACE/OTHER_PLACE L*(100-f)/100 (documented in the code from issue #454)",
    "the 2.5% threshold is applied to every market type (as the statement says); fragments first seen in the update that carries the removal are not judged",
    "matched fragments of market-on-close LAY orders are not judged (their size is recomputed from the scaled liability)",
]


@st.composite
def scenario(draw, tier="quick"):
    nm = draw(st.sampled_from([1, 1, 2, 3]))
    grouped = nm > 1 and draw(st.booleans())
    mtype = draw(st.sampled_from(["WIN", "WIN", "PLACE", "OTHER_PLACE", "EACH_WAY", "MATCH_ODDS"]))
    bsp = mtype != "MATCH_ODDS" and draw(st.integers(0, 3)) > 0
    nr = draw(st.integers(3, 4))
    afs = [draw(st.sampled_from([0.5, 2.4, 2.5, 10.0, 25.0, 40.0])) for _ in range(nr)]
    shared_removal = {"r": draw(st.integers(0, nr - 1)),
                      "af": draw(st.sampled_from([0, 1.0, 2.49, 2.5, 2.51, 10, 40, 99, None]))}  # None: market without reduction factors
    # directed: a runner carrying market-on-close orders is removed without a factor, a second runner is removed
    # later with one (every order after the first in the blotter must still be voided / reduced / scaled)
    nofactor_then_factor = bsp and draw(st.integers(0, 5)) == 0
    if nofactor_then_factor:
        shared_removal["af"] = None
    markets, scripts = [], []
    for mi in range(nm):
        spec = world.default_market(mi, nr, event=0 if grouped else mi)
        spec["market_type"] = mtype
        if mtype == "EACH_WAY":
            spec["each_way_divisor"] = 4
        if mtype in ("PLACE", "OTHER_PLACE"):
            spec["number_of_winners"] = 2
        spec["bsp_market"] = bsp
        for i, r in enumerate(spec["runners"]):
            r["af"] = afs[i]
        spec["start_pt"] = world.BASE_PT + (mi * 5 if grouped else mi * 10_000_000)
        n = draw(st.integers(4, 12 if tier == "quick" else 30))
        feats = {"remove": 0, "suspend": 1, "inplay": 1, "books": 3, "trades": 3, "max_dt_ms": 5000}
        steps, states = draw(gen.timeline(spec, n, feats))
        # insert removals: the shared one in every market (same selection id + factor), maybe a second one
        body = len(steps) - 2  # before the closing suspend/close
        pos = draw(st.integers(1, max(1, body)))
        steps.insert(pos, {"dt": draw(st.sampled_from([50, 1000])), "k": "remove", **shared_removal})
        states.insert(pos + 1, dict(states[pos], removed=set(states[pos]["removed"]) | {shared_removal["r"]}))
        if nofactor_then_factor:
            r2 = (shared_removal["r"] + 1) % nr
            pos2 = draw(st.integers(min(pos + 1, len(steps) - 2), max(pos + 1, len(steps) - 2)))
            steps.insert(pos2, {"dt": 1000, "k": "remove", "r": r2, "af": draw(st.sampled_from([2.0, 5.0, 30.0]))})
            states.insert(pos2 + 1, dict(states[pos2]))
            scripts.append({"m": mi, "at": 0, "ops": [
                {"op": "place", "r": shared_removal["r"], "side": "LAY", "type": "MOC", "tick": 50, "liability": draw(st.sampled_from([1.0, 10.0]))},
                {"op": "place", "r": (shared_removal["r"] + 2) % nr, "side": draw(st.sampled_from(["LAY", "BACK"])),
                 "type": draw(st.sampled_from(["MOC", "LOC"])), "liability": 5.0, "tick": draw(st.integers(20, 120))},
                {"op": "place", "r": r2, "side": "BACK", "type": "LIMIT", "tick": draw(st.integers(20, 120)), "size": 2.0, "pers": "PERSIST"}]})
        elif draw(st.integers(0, 3)) == 0:
            r2 = (shared_removal["r"] + 1) % nr
            pos2 = draw(st.integers(1, max(1, len(steps) - 2)))
            steps.insert(pos2, {"dt": 1000, "k": "remove", "r": r2, "af": draw(st.sampled_from([2.0, 5.0, 30.0]))})
            states.insert(pos2 + 1, dict(states[pos2]))
        # results must not name removed runners (renderer keeps REMOVED)
        spec["steps"] = steps
        markets.append(spec)
        scripts += draw(gen.script(spec, states, mi=mi, max_entries=6, max_ops=3,
                                   place_kw=dict(kinds=("LIMIT", "LIMIT", "LIMIT", "LOC", "MOC", "MOC") if bsp else ("LIMIT",),
                                                 sp=bsp, sizes="level")))
    sc = {"markets": markets, "event_processing": grouped,
          "strategies": [gen.strategy_spec("A", script=scripts)],
          "clients": [{"min_bet_validation": False}], "config": {}}
    if draw(st.integers(0, 4)) == 0:
        # pre-play-only backtest (listener inplay=False): OPEN in-play updates are not delivered, but a removal declared
        # after the off arrives in a SUSPENDED update and those are processed regardless
        sc["listener_kwargs"] = {"inplay": False}
    return sc


def reduce_price(p, f):
    return max(round(p * (1 - f / 100), 2), 1.01)


def check(sc):
    lb = simlab.run_scenario(sc, snapshot_cbs=("process_market_book", "process_closed_market"))
    if lb.error is not None:
        raise crash_violation(lb.error, sc, "run-aborted")
    epoch = __import__("datetime").datetime(1970, 1, 1)
    classes = set()
    nontrivial = False
    for mi, spec in enumerate(sc["markets"]):
        ups = lb.renderers[mi].updates
        pt2idx = {u.pt: u.idx for u in ups}
        sel_ids = [r["id"] for r in spec["runners"]]
        mtype = spec["market_type"]
        recs = [r for r in lb.log if r["market"] == spec["id"]]
        prev = {}  # oid -> snapshot at previous update
        first_seen = {}
        removed_sel = {}  # selection id -> update idx of removal
        last_u = 0
        last_removals = []
        for rec in recs:
            u = pt2idx[int(round((rec["pt"] - epoch).total_seconds() * 1000))]
            # removals (definition status change) since the update of the previous callback: with the default listener
            # that is update u alone; a filtering listener may skip updates in between
            if u == last_u:
                new_removals = last_removals
            else:
                new_removals = []
                for v in range(max(1, last_u + 1), u + 1):
                    for i, (a, b) in enumerate(zip(ups[v - 1].runner_status, ups[v].runner_status)):
                        if a == "ACTIVE" and b == "REMOVED":
                            new_removals.append((i, ups[v].runner_af[i]))
                            removed_sel.setdefault(sel_ids[i], v)
                last_u, last_removals = u, new_removals
            for o in rec["orders"]:
                oid = o["oid"]
                p = prev.get(oid)
                on_removed = o["sel"] in removed_sel and removed_sel[o["sel"]] <= u
                where = "market %s update %d (%s)" % (spec["id"], u, rec["cb"])
                first_seen.setdefault(oid, u)
                # the average matched price (which settlement uses) always follows the (reduced) fragment prices
                if o["matched"] and not (o["type"] == "MARKET_ON_CLOSE" and o["side"] == "LAY"):  # (re-sized through its liability)
                    tot = sum(m_[2] for m_ in o["matched"])
                    if tot > 0:
                        wap = sum(m_[1] * m_[2] for m_ in o["matched"]) / tot
                        if abs(o["apm"] - wap) > 0.0051 + 1e-9 or abs(o["sm"] - tot) > 0.0051:
                            raise Violation("average-price-ignores-reduction", (o["type"], o["side"]),
                                            "fragments %s give average %.4f / size %.2f but the order reports %s / %s at %s" % (
                                                o["matched"], wap, tot, o["apm"], o["sm"], where), sc)
                if on_removed and first_seen[oid] >= removed_sel[o["sel"]]:
                    # requested after the removal had been processed: the placement must fail without a fill
                    if o["status"] != "PENDING" and (o["sm"] != 0 or any(m_[2] for m_ in o["matched"]) or not o["complete"]) and "PENDING" in o["status_log"]:
                        raise Violation("placed-on-removed-runner", (o["type"], o["status"]),
                                        "order placed on an already removed runner: status %s matched %s at %s" % (o["status"], o["sm"], where), sc)
                    classes.add("placed-after-removal")
                elif on_removed and "PENDING" in o["status_log"]:
                    # ---- voided in full, whatever state it was in
                    state_before = p["status"] if p is not None else "new"
                    # (a zero-size fragment - the starting-price conversion of a remainder that the void left at 0 - is
                    #  not a matched amount)
                    if o["sm"] != 0 or any(m_[2] for m_ in o["matched"]):
                        raise Violation("removed-runner-still-matched", (o["type"], state_before),
                                        "order on removed runner has size_matched %s fragments %s at %s" % (o["sm"], o["matched"], where), sc)
                    if o["type"] == "LIMIT" and o["sr"] != 0:
                        raise Violation("removed-runner-has-remaining", (state_before,),
                                        "order on removed runner has remaining %s (cancelled %s lapsed %s voided %s size %s) at %s" % (
                                            o["sr"], o["sc"], o["sl"], o["sv"], o["size"], where), sc)
                    # an order still awaiting its placement completes when the placement is executed (C07)
                    if not o["complete"] and o["status"] != "PENDING" and (u > removed_sel[o["sel"]] or rec["cb"] == "process_closed_market"):
                        raise Violation("removed-runner-not-complete", (o["type"], o["status"]),
                                        "order on removed runner still %s at %s (removed at update %d)" % (o["status"], where, removed_sel[o["sel"]]), sc)
                    if p is not None and p["status"] not in ("EXECUTABLE",) or (p is not None and (p["sm"] or p["sc"] or p["sl"])):
                        nontrivial = True
                        classes.add("removed:non-resting-state")
                    classes.add("order-on-removed-runner")
                elif p is not None and not on_removed:
                    # ---- other runners: fragments seen before this update
                    exp_f = [r for r in new_removals if sel_ids[r[0]] != o["sel"]]
                    is_moc_lay = o["type"] == "MARKET_ON_CLOSE" and o["side"] == "LAY"
                    if not is_moc_lay:
                        for k, old in enumerate(p["matched"]):
                            if k >= len(o["matched"]):
                                raise Violation("fragment-lost", (), "fragment %s disappeared at %s" % (old, where), sc)
                            exp = old[1]
                            for _, f in exp_f:
                                if f is not None and f >= 2.5:
                                    exp = reduce_price(exp, f)
                            got = o["matched"][k][1]
                            if len(exp_f) > 1 and abs(got - exp) > 1e-9:
                                # several removals became visible in one delivered update (a filtering listener skipped
                                # the updates in between): each is applied once, in an order the statement leaves open -
                                # the 2dp rounding after each step makes the result depend on it
                                import itertools

                                for perm in itertools.permutations([f for _, f in exp_f if f is not None and f >= 2.5]):
                                    e2 = old[1]
                                    for f in perm:
                                        e2 = reduce_price(e2, f)
                                    if abs(got - e2) <= 1e-9:
                                        exp = e2
                                        break
                            if abs(got - exp) > 1e-9:
                                kind = "not-reduced" if exp_f and got == old[1] else ("reduced-without-removal" if not exp_f else "wrong-reduction")
                                raise Violation("reduction-factor", (kind, o["type"], o["side"]),
                                                "fragment price %s -> %s at %s, expected %s (removals this update: %s)" % (
                                                    old[1], got, where, exp, exp_f), sc)
                            if exp != old[1]:
                                nontrivial = True
                                classes.add("fragment-reduced")
                            elif exp_f:
                                classes.add("factor-below-threshold")
                                nontrivial = True
                    # liabilities
                    if o["liability"] is not None:
                        exp = p["liability"]
                        if is_moc_lay and exp_f:
                            own_af = ups[u].runner_af[sel_ids.index(o["sel"])]
                            for _, f in exp_f:
                                if f is None or own_af is None:
                                    continue  # removal / order's runner without a reduction factor: nothing to scale
                                if mtype == "WIN":
                                    exp = exp * (1 - f / (100 - own_af))
                                elif mtype in ("PLACE", "OTHER_PLACE"):
                                    exp = exp * (100 - f) / 100
                            classes.add("moc-lay-scaled")
                            nontrivial = True
                        if abs(o["liability"] - exp) > 1e-6 * max(1, abs(exp)):
                            raise Violation("sp-liability", (o["type"], o["side"], mtype),
                                            "liability %s -> %s at %s, expected %s (removals %s)" % (p["liability"], o["liability"], where, exp, exp_f), sc)
                prev[oid] = o
        if len(sc["markets"]) > 1:
            classes.add("same-removal-in-%d-markets%s" % (len(sc["markets"]), "-grouped" if sc.get("event_processing") else ""))
    # profit of orders on removed runners at close
    for order in lb.all_orders():
        spec = sc["markets"][lb.market_index[order.market_id]]
        for s in spec["steps"]:
            if s["k"] == "remove" and spec["runners"][s["r"]]["id"] == order.selection_id and order.status_log:
                closed = any(x["k"] == "close" for x in spec["steps"])
                if closed and order.profit != 0:
                    raise Violation("removed-runner-profit", (order.order_type.ORDER_TYPE.name,), "profit %s on a removed runner" % order.profit, sc)
    return nontrivial, classes


def sub_runs(col, budget, seed, tier, shard, nshards):
    run_given(col, scenario(tier), check, budget, seed, tier, "runs")


def subchecks(tier):
    return [SubCheck("runs", sub_runs, 3000 if tier == "quick" else 100000)]


def replay(c, sub=None):
    check(c)
