"""C14 - Simulation is deterministic, complete and chronological."""
import copy
import datetime as dt
import json
import os
import subprocess
import sys

from hypothesis import strategies as st

from .. import gen, simlab, world
from ..common import SubCheck, Violation, run_given, crash_violation, VERIF_DIR, REPO_DIR

PROPERTY = "C14"
LEVEL = "exploration"
SHARDS = {"quick": 8, "thorough": 16}
RULE = (
    "Whole simulation runs over 1-5 generated market files (equal / unequal lengths, identical and interleaved "
    "publish times across markets, 1-3 events, optional event_groups), event_processing on/off, listener filters "
    "(none, inplay True/False, seconds_to_start, max_inplay_seconds and combinations), an order-placing scripted "
    "strategy plus an observer. Each case runs in-process twice (repeatability); a sample also runs in two fresh "
    "subprocesses with different PYTHONHASHSEED and a shifted wall clock (time.time / datetime patched before flumine "
    "is imported). Oracles: independent filter oracle from the documented semantics; exactly-once, per-market order, "
    "non-decreasing publish time inside an event group; delivered book == input ledger; clock == publish time; "
    "datetime class restored also when run() ends in an exception. Non-trivial: >= 2 markets in one event group "
    "with interleaved or tied publish times, or a filter that drops >= 1 update."
)
ASSUMPTIONS = [
    "filter semantics: non-OPEN updates always pass; OPEN ones pass iff (inplay True => in play; else seconds_to_start => start - now <= threshold) and (inplay False => not in play) and (max_inplay_seconds => seconds since turn in-play <= max)",
    "wall-clock / process independence is sampled with two subprocesses per sampled case (different hash seeds, clock offsets up to +-10 years)",
]

EPOCH = dt.datetime(1970, 1, 1)


@st.composite
def scenario(draw, tier="quick", fault=False, cooldown=False):
    nm = draw(st.sampled_from([1, 2, 2, 3, 3, 5]))
    ep = draw(st.integers(0, 3)) > 0
    n_events = draw(st.integers(1, min(3, nm)))
    grid = draw(st.booleans())  # identical publish times across markets
    LKS = [{}, {}, {"inplay": True}, {"inplay": False}, {"seconds_to_start": 10}, {"max_inplay_seconds": 5},
           {"inplay": True, "max_inplay_seconds": 3}, {"seconds_to_start": 20, "max_inplay_seconds": 10},
           {"inplay": False, "seconds_to_start": 10}, {"inplay": False, "seconds_to_start": 20}]
    lk = draw(st.sampled_from(LKS))
    tx_hours = cooldown and draw(st.integers(0, 2)) == 0
    if tx_hours:
        lk, grid = {}, False
    markets, scripts = [], []
    for mi in range(nm):
        spec = world.default_market(mi, 2, event=draw(st.integers(0, n_events - 1)))
        spec["start_pt"] = world.BASE_PT + (0 if grid else draw(st.sampled_from([0, 1, 300, 5000])))
        spec["market_time_offset_ms"] = draw(st.sampled_from([15_000, 30_000, 3_600_000]))
        n = draw(st.integers(2, 10 if tier == "quick" else 40))
        feats = {"remove": 0, "suspend": 1, "inplay": 2, "books": 4, "trades": 2, "close": draw(st.integers(0, 9)) > 0,
                 "max_dt_ms": 1000 if grid else 20_000}
        steps, states = draw(gen.timeline(spec, n, feats))
        if "seconds_to_start" in lk and draw(st.booleans()):
            # the scheduled start time changes while the market is open
            pos = draw(st.integers(0, len(steps)))
            steps.insert(pos, {"dt": 1000, "k": "retime", "offset_ms": draw(st.sampled_from([2_000, 8_000, 15_000, 30_000, 60_000, 3_600_000]))})
        if grid:
            for s in steps:
                s["dt"] = 1000
        spec["steps"] = steps
        markets.append(spec)
        ents = draw(gen.script(spec, states, mi=mi, max_entries=3, max_ops=2, place_kw=dict(kinds=("LIMIT",), sp=False, sizes="level")))
        if cooldown:
            # repeated takers on one runner with trade cool-downs: whether the next one is accepted depends on the
            # (simulated) time since the previous trade completed / was placed - never on the wall clock
            rs, prs = draw(st.sampled_from([0.0, 0.5, 5.0, 60.0])), draw(st.sampled_from([0.0, 0.0, 0.5, 5.0]))
            for k in sorted(draw(st.sets(st.integers(1, max(1, len(states) - 1)), min_size=1, max_size=6))):
                ents.append({"m": mi, "at": k, "ops": [{"op": "place", "r": 0, "side": draw(st.sampled_from(["BACK", "LAY"])), "type": "LIMIT",
                                                         "tick": draw(st.sampled_from([0, 40, 300])), "size": 2.0, "pers": "LAPSE",
                                                         "reset_seconds": rs, "place_reset_seconds": prs}]})
        if cooldown and tx_hours:
            # the client's hourly transaction limit: updates tens of minutes apart, one taker per update - which of
            # them the limit refuses depends on the SIMULATED hour each falls in
            for s in steps:
                if s["k"] == "book":
                    s["dt"] = draw(st.sampled_from([600_000, 1_500_000, 2_400_000]))
            for k in range(1, len(states)):
                ents.append({"m": mi, "at": k, "ops": [{"op": "place", "r": 1, "side": "BACK", "type": "LIMIT", "tick": 0, "size": 2.0, "pers": "LAPSE"}]})
        for e_ in ents:
            for op_ in e_["ops"]:
                if op_.get("op") == "place" and "reset_seconds" not in op_ and draw(st.integers(0, 3)) == 0:
                    op_["reset_seconds"] = draw(st.sampled_from([0.5, 5.0, 60.0]))
        scripts += ents
    sc = {"markets": markets, "event_processing": ep, "listener_kwargs": lk,
          "strategies": [gen.strategy_spec("A", script=scripts), gen.strategy_spec("OBS", script=[])],
          "clients": [{"min_bet_validation": False}], "config": {}}
    if tx_hours:
        sc["clients"][0]["tx_limit"] = draw(st.sampled_from([1, 2, 4]))
    if ep and n_events > 1 and draw(st.booleans()):
        # (a mapping may name only some of the events: the others keep their own event id as their group)
        sc["event_groups"] = draw(st.sampled_from([{markets[0]["event_id"]: "G", markets[-1]["event_id"]: "G"},
                                                   {markets[0]["event_id"]: "G"}, {markets[-1]["event_id"]: "G2"}]))
    if draw(st.integers(0, 2)) == 0:
        # strategies with DIFFERENT listener filters on the same files (each gets its own stream of the market);
        # either may be registered first
        sc["strategies"][1]["listener_kwargs"] = draw(st.sampled_from(LKS + [{"inplay": True, "max_inplay_seconds": 20}]))
        if draw(st.booleans()):
            sc["strategies"].reverse()
    if not fault and draw(st.integers(0, 3)) == 0:
        # (errors are contained, raise_errors False) OBS's code fails inside `simulated_datetime.real_time()`: every
        # later callback must still see the publish time of its update
        next(s_ for s_ in sc["strategies"] if s_["name"] == "OBS")["fault"] = {
            "cb": draw(st.sampled_from(["check_market_book", "process_market_book", "process_orders"])), "n": draw(st.integers(0, 4)),
            "exc": "plain", "in_real_time": True}
    if fault:
        sc["config"] = {"raise_errors": True}
        next(s_ for s_ in sc["strategies"] if s_["name"] == "OBS")["fault"] = {"cb": draw(st.sampled_from(["check_market_book", "process_market_book", "process_orders", "process_new_market"])),
                                        "n": draw(st.integers(0, 6)), "exc": "plain"}
    return sc


def expected_delivery(spec, updates, lk):
    """independent filter oracle -> list of update indices that must be delivered"""
    inplay_start = None
    prev_inplay = False
    out = []
    for u in updates:
        if u.inplay and not prev_inplay:
            inplay_start = u.pt
        prev_inplay = u.inplay
        ok = True
        if u.status == "OPEN":
            if lk.get("inplay"):
                if not u.inplay:
                    ok = False
            elif lk.get("seconds_to_start"):
                if (u.market_time - u.pt) / 1000.0 > lk["seconds_to_start"]:  # start time in force at this update
                    ok = False
            if lk.get("inplay") is False and u.inplay:
                ok = False
            if lk.get("max_inplay_seconds") is not None and inplay_start is not None:
                if (u.pt - inplay_start) / 1000.0 > lk["max_inplay_seconds"]:
                    ok = False
        if ok:
            out.append(u.idx)
    return out


def _ms(x):
    return int(round((x - EPOCH).total_seconds() * 1000))


def group_of(sc, spec):
    if not sc.get("event_processing"):
        return None
    return (sc.get("event_groups") or {}).get(spec["event_id"], spec["event_id"])


def run_once(sc, capture=True):
    with simlab.lab(sc, snapshots=False, capture_books=capture) as lb:
        lb.run()
        led = {s.name: simlab.ledger(lb, s.name) for s in lb.strategies}
        return lb, led


def check(sc):
    classes = set()
    lb, led = run_once(sc)
    if lb.error is not None:
        raise crash_violation(lb.error, sc, "run-aborted")
    if not lb.datetime_restored:
        raise Violation("real-clock-not-restored", ("normal-exit",), "datetime.datetime is not the original class after run()", sc)
    nontrivial = False
    for name in ("A", "OBS"):
        sspec = next(s for s in sc["strategies"] if s["name"] == name)
        lk = sspec.get("listener_kwargs", sc.get("listener_kwargs")) or {}
        if "listener_kwargs" in sspec and sspec["listener_kwargs"] != (sc.get("listener_kwargs") or {}):
            classes.add("strategies-with-different-filters")
        recs = [r for r in lb.log if r["strategy"] == name and r["cb"] in ("check_market_book", "process_closed_market")]
        for r in recs:
            if r["now"] != r["pt"]:
                raise Violation("clock-not-publish-time", (r["cb"],), "utcnow()=%s, publish time %s" % (r["now"], r["pt"]), sc)
        for mi, spec in enumerate(sc["markets"]):
            ups = lb.renderers[mi].updates
            exp = expected_delivery(spec, ups, lk)
            got = [_ms(r["pt"]) for r in recs if r["market"] == spec["id"]]
            exp_pts = [ups[i].pt for i in exp]
            if len(exp) < len(ups):
                classes.add("filter-drops-updates")
                nontrivial = True
            if got != exp_pts:
                missing = [p for p in exp_pts if p not in got]
                extra = [p for p in got if p not in exp_pts]
                dup = len(got) != len(set(got))
                kind = "duplicated" if dup else "missing" if missing and not extra else "unexpected" if extra and not missing else "order"
                raise Violation("delivery", (kind, "filter:" + ",".join(sorted(lk)) if lk else "no-filter"),
                                "market %s strategy %s: delivered %d updates, expected %d (missing %s, unexpected %s)" % (
                                    spec["id"], name, len(got), len(exp_pts), missing[:5], extra[:5]), sc)
            # delivered content == input ledger at that update
            by_pt = {u.pt: u for u in ups}
            sel_ids = [r_["id"] for r_ in spec["runners"]]
            for r in recs:
                if r["market"] != spec["id"] or "book" not in r:
                    continue
                u = by_pt[_ms(r["pt"])]
                for sel, status, atb, atl, trd in r["book"]:
                    i = sel_ids.index(sel)
                    if [tuple(x) for x in atb] != [tuple(x) for x in u.books[i]["atb"]] or [tuple(x) for x in atl] != [tuple(x) for x in u.books[i]["atl"]]:
                        raise Violation("delivered-book-differs-from-data", ("filter" if lk else "no-filter",),
                                        "market %s update %d runner %s: delivered atb %s atl %s, data says %s" % (spec["id"], u.idx, sel, atb, atl, u.books[i]), sc)
                    if trd != sorted(u.traded[i].items()):
                        raise Violation("delivered-traded-differs-from-data", ("filter" if lk else "no-filter",),
                                        "market %s update %d runner %s: traded %s, data says %s" % (spec["id"], u.idx, sel, trd, sorted(u.traded[i].items())), sc)
                if r["inplay"] != u.inplay or r["version"] != u.version or r["status"] != u.status:
                    raise Violation("delivered-definition-differs-from-data", (), "market %s update %d: status/inplay/version %s, data %s" % (
                        spec["id"], u.idx, (r["status"], r["inplay"], r["version"]), (u.status, u.inplay, u.version)), sc)
        # chronological inside an event group
        groups = {}
        for spec in sc["markets"]:
            groups.setdefault(group_of(sc, spec), []).append(spec["id"])
        for g, ids in groups.items():
            if g is None or len(ids) < 2:
                continue
            seq = [(_ms(r["pt"]), r["market"]) for r in recs if r["market"] in ids]
            for (a, ma), (b, mb) in zip(seq, seq[1:]):
                if b < a:
                    raise Violation("not-chronological", ("event-group",), "event group %s: update of %s at %d processed after %s at %d" % (g, mb, b, ma, a), sc)
            ms = [m for _, m in seq]
            switches = sum(1 for x, y in zip(ms, ms[1:]) if x != y)
            if switches >= 2:
                nontrivial = True
                classes.add("interleaved-event-group")
            if len({p for p, _ in seq}) < len(seq):
                classes.add("tied-publish-times")
    # ---- repeatability in-process
    lb2, led2 = run_once(sc, capture=False)
    if led2 != led:
        raise Violation("not-deterministic", ("in-process",), "two runs of the same scenario gave different ledgers", sc)
    if any(o["matched"] for o in led["A"]["orders"]):
        classes.add("orders-filled")
    return nontrivial, classes


def check_fault(sc):
    lb, led = run_once(sc, capture=False)
    fired = lb.fault_fired
    if fired and lb.error is None:
        raise Violation("error-swallowed-with-raise-errors", (), "raise_errors=True but run() returned normally", sc)
    if not lb.datetime_restored:
        raise Violation("real-clock-not-restored", ("exception-exit" if lb.error else "normal-exit",),
                        "datetime.datetime is %r after run() ended with %r" % (dt.datetime, lb.error), sc)
    return fired, ("run-ended-in-exception",) if fired else ("fault-not-reached",)


def check_subprocess(sc):
    _, led = run_once(sc, capture=False)
    outs = []
    # wall clock ten years ahead / 1500.5 days back (= before the recorded data, whatever the real date until 2027)
    # (the second child's wall clock also RUNS: every reading is 11 minutes later than the previous one, so anything
    #  bucketed by the real hour rolls over many times during the run)
    for hseed, offset, step in (("1", 86400.0 * 3653, 0.0), ("4242", -86400.0 * 1500.5, 660.0)):
        env = dict(os.environ, PYTHONHASHSEED=hseed, FLV_REPO=REPO_DIR, PYTHONDONTWRITEBYTECODE="1")
        p = subprocess.run([sys.executable, os.path.join(VERIF_DIR, "flv", "child_run.py"), str(offset), str(step)], input=json.dumps(sc),
                           capture_output=True, text=True, env=env, timeout=300)
        if p.returncode != 0:
            from ..common import HarnessError

            raise HarnessError("child failed: %s" % p.stderr[-2000:])
        outs.append(json.loads(p.stdout.strip().splitlines()[-1]))
    ref = json.loads(json.dumps(led, default=str))
    for o, tag in zip(outs, ("hashseed=1,+10y", "hashseed=4242,-1500d,running-clock")):
        if o["ledgers"] != ref:
            raise Violation("not-deterministic", ("subprocess",), "fresh process (%s) produced a different ledger" % tag, sc)
    if outs[0]["seq"] != outs[1]["seq"]:
        raise Violation("not-deterministic", ("subprocess-sequence",), "delivery sequences differ between two fresh processes", sc)
    return True, ("subprocess-pair",)


def sub_runs(col, budget, seed, tier, shard, nshards):
    run_given(col, scenario(tier), check, budget, seed, tier, "runs")


def sub_fault(col, budget, seed, tier, shard, nshards):
    run_given(col, scenario(tier, fault=True), check_fault, budget, seed, tier, "exception-exit")


def sub_subprocess(col, budget, seed, tier, shard, nshards):
    run_given(col, scenario(tier, cooldown=True), check_subprocess, budget, seed, tier, "subprocess")


def subchecks(tier):
    q = tier == "quick"
    return [SubCheck("runs", sub_runs, 1600 if q else 40000), SubCheck("exception-exit", sub_fault, 400 if q else 8000),
            SubCheck("subprocess", sub_subprocess, 40 if q else 1500)]


def replay(c, sub=None):
    if sub == "exception-exit":
        check_fault(c)
    elif sub == "subprocess":
        check_subprocess(c)
    else:
        check(c)
