"""C01 - Exposure limits bound every order that reaches the exchange."""
from ..common import SubCheck
from ..machine import SimWorld, replay_trace
from . import _machines as M

PROPERTY = "C01"
LEVEL = "exploration"
SHARDS = {"quick": 8, "thorough": 16}
RULE = (
    "Rule-based state machine over a real stepped FlumineSimulation with the default controls and no forcing: each of "
    "max_order_exposure / max_selection_exposure / max_market_exposure drawn from {None, 2, 5, 10, 25, 100}, high "
    "max_live_trade_count so several orders can rest, WIN / PLACE / MATCH_ODDS / line markets with 2-4 runners and 1-2 "
    "winners; rules: place (LIMIT BACK/LAY at any tick and 2dp size, LIMIT_ON_CLOSE, MARKET_ON_CLOSE, every "
    "persistence), replace to another tick, cancel full / partial, update, book and traded-volume updates (fills at "
    "better prices, passive fills), suspend / re-open, turn in-play with BSP, removal of a runner, close with results. "
    "Decision oracle at every accepted place / replace: brute-force worst case (all fill subsets, all winner sets) of "
    "the acknowledged orders plus the new order in full at its (new) price against the three limits; refused orders "
    "must be VIOLATION and never packaged (C02 machinery). In 'discipline' runs (no place / replace while an order of "
    "the strategy on the selection awaits acknowledgement) the worst case at every step and the realised P&L after "
    "closure must stay within max_selection_exposure. Non-trivial: a run with a refusal by an exposure limit and an "
    "acceptance on a non-empty prior position; distinct = distinct trace JSON."
)
ASSUMPTIONS = [
    "each-way markets and bet_target_size orders are outside (not in the property's list / not implemented in simulation)",
    "tolerance 0.011 (+0.005-0.006 x matched size for the 2dp average price and reduction-factor re-pricing)",
    "only the 'only if' direction is judged: a refusal of an order that would have fitted is not a violation",
]
CHECKS = ("exposure", "noeffect")


def cfg(discipline):
    return M.base_cfg(limits="tight", multi_strategy=True, line=True,
                      extra={"no_force": True, "discipline": discipline})


def fix_limits(c):
    for s in c["strategies"]:
        s["max_trade_count"] = 10**6
        s["max_live_trade_count"] = 10**6
    return c


def sub_decision(col, budget, seed, tier, shard, nshards):
    M.run(col, SimWorld, CHECKS, cfg(False).map(fix_limits), budget, 30 if tier == "quick" else 60, seed, tier, "decision",
          rule_weights={"place_existing": 0, "squeeze": 1, "resubmit": 1})  # resubmit: a refused order submitted again


def sub_discipline(col, budget, seed, tier, shard, nshards):
    M.run(col, SimWorld, CHECKS, cfg(True).map(fix_limits), budget, 30 if tier == "quick" else 60, seed, tier, "discipline",
          rule_weights={"place_existing": 0, "squeeze": 1})


def subchecks(tier):
    q = tier == "quick"
    return [SubCheck("decision", sub_decision, 900 if q else 30000), SubCheck("discipline", sub_discipline, 900 if q else 30000)]


def replay(case, sub=None):
    replay_trace(SimWorld, CHECKS, case)
