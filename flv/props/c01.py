"""C01 - Exposure limits bound every order that reaches the exchange."""
from hypothesis import strategies as st

from .. import world
from ..common import SubCheck, run_given
from ..machine import SimWorld, replay_trace
from . import _machines as M

PROPERTY = "C01"
LEVEL = "exploration"
SHARDS = {"quick": 8, "thorough": 16}
RULE = (
    "Rule-based state machine over a real stepped FlumineSimulation with the default controls and no forcing: each of "
    "max_order_exposure / max_selection_exposure / max_market_exposure drawn from {None, 2, 5, 10, 25, 100}, high "
    "max_live_trade_count so several orders can rest, WIN / PLACE / MATCH_ODDS / line markets with 2-4 runners and 1-2 "
    "winners; rules: place (LIMIT BACK/LAY at any tick and 2dp size, LIMIT_ON_CLOSE, MARKET_ON_CLOSE, every "
    "persistence), replace to another tick, cancel full / partial, update, book and traded-volume updates (fills at "
    "better prices, passive fills), suspend / re-open, turn in-play with BSP, removal of a runner, close with results. "
    "Decision oracle at every accepted place / replace: brute-force worst case (all fill subsets, all winner sets) of "
    "the acknowledged orders plus the new order in full at its (new) price against the three limits; refused orders "
    "must be VIOLATION and never packaged (C02 machinery). In 'discipline' runs (no place / replace while an order of "
    "the strategy on the selection awaits acknowledgement) the worst case at every step and the realised P&L after "
    "closure must stay within max_selection_exposure. Non-trivial: a run with a refusal by an exposure limit and an "
    "acceptance on a non-empty prior position; distinct = distinct trace JSON."
)
ASSUMPTIONS = [
    "each-way markets and bet_target_size orders are outside (not in the property's list / not implemented in simulation)",
    "tolerance 0.011 (+0.005-0.006 x matched size for the 2dp average price and reduction-factor re-pricing)",
    "only the 'only if' direction is judged: a refusal of an order that would have fitted is not a violation",
]
CHECKS = ("exposure", "noeffect")


def cfg(discipline):
    return M.base_cfg(limits="tight", multi_strategy=True, line=True,
                      extra={"no_force": True, "discipline": discipline})


def fix_limits(c):
    for s in c["strategies"]:
        s["max_trade_count"] = 10**6
        s["max_live_trade_count"] = 10**6
    return c


def sub_decision(col, budget, seed, tier, shard, nshards):
    M.run(col, SimWorld, CHECKS, cfg(False).map(fix_limits), budget, 30 if tier == "quick" else 60, seed, tier, "decision",
          rule_weights={"place_existing": 0, "squeeze": 1, "resubmit": 1, "txn": 1})  # resubmit: a refused order submitted again; txn: batched requests with explicit flushes


def sub_discipline(col, budget, seed, tier, shard, nshards):
    M.run(col, SimWorld, CHECKS, cfg(True).map(fix_limits), budget, 30 if tier == "quick" else 60, seed, tier, "discipline",
          rule_weights={"place_existing": 0, "squeeze": 1, "txn": 1})


@st.composite
def headroom_trace(draw):
    """directed shape (discipline run, one strategy): an order uses most of max_selection_exposure, part of it is
    cancelled (or it is reduced by a replace / voided by a removal elsewhere), the freed headroom is used by further
    orders, then the market turns in-play and the starting price is reconciled (orders with MARKET_ON_CLOSE
    persistence are converted), suspends and closes with the selection winning or losing.  Whatever was cancelled
    must stay cancelled: the worst case at every step and the realised loss stay within the limit."""
    nr = draw(st.integers(2, 3))
    spec = world.default_market(0, nr)
    spec["market_type"] = draw(st.sampled_from(["WIN", "WIN", "PLACE"]))
    if spec["market_type"] == "PLACE":
        spec["number_of_winners"] = 2 if nr > 2 else 1
    spec["bsp_market"] = draw(st.integers(0, 5)) > 0
    # directed variant: an odds-on BACK starting-price order is reconciled, then a further BACK is requested in-play
    odds_on_sp = draw(st.integers(0, 5)) == 0
    if odds_on_sp:
        spec["bsp_market"] = True
    spec["persistence_enabled"] = True
    lim = draw(st.sampled_from([25, 40, 100]))
    strat = {"name": "S0", "client": 0, "max_order_exposure": draw(st.sampled_from([None, lim, 100])),
             "max_selection_exposure": lim, "max_market_exposure": draw(st.sampled_from([None, None, lim, 1000])),
             "max_trade_count": 10**6, "max_live_trade_count": 10**6}
    cfg_ = {"market": spec, "strategies": [strat], "clients": [{"min_bet_validation": False, "tx_limit": 5000, "bpe": True}],
            "config": {}, "no_force": True, "discipline": True}
    if draw(st.integers(0, 3)) == 0:
        cfg_["config"] = {"simulated_strategy_isolation": False}
    prices = world.ladder_prices(spec)
    mid = draw(st.integers(45, 180)) if not odds_on_sp else draw(st.integers(12, 60))
    r = draw(st.integers(0, nr - 1))
    side = draw(st.sampled_from(["LAY", "LAY", "BACK"])) if not odds_on_sp else "BACK"
    # a lay rests below the market, a back above it
    tick = mid - draw(st.integers(8, 30)) if side == "LAY" else mid + draw(st.integers(8, 30))
    price = prices[tick]
    pers = draw(st.sampled_from(["MARKET_ON_CLOSE", "MARKET_ON_CLOSE", "PERSIST", "LAPSE"]))

    def sized(frac):
        risk = lim * frac
        return max(0.02, round(risk / (price - 1), 2)) if side == "LAY" else max(0.02, round(risk, 2))

    def place(frac, pers_=None):
        return {"_": "req", "op": "place", "si": 0, "r": r, "side": side, "type": "LIMIT", "tick": tick, "size": sized(frac),
                "pers": pers_ or pers, "trade": "new"}

    tick_ = {"_": "book", "dt": 1000, "rc": []}
    if side == "LAY" and not odds_on_sp and draw(st.integers(0, 5)) == 0:
        # directed: the first order is a fill-or-kill LAY priced through a thin ladder - sweeping its whole size would
        # take the volume-weighted price through the limit, so it may only be filled within its limit (or killed):
        # the liability the control admitted, (price - 1) x size, bounds what can be lost
        t_ = max(10, min(len(prices) - 12, mid))
        L_ = prices[t_]
        sz = max(0.06, round(lim * 0.9 / (L_ - 1), 2))
        third = max(0.01, round(sz / draw(st.sampled_from([3, 10])), 2))
        far = min(len(prices) - 2, t_ + draw(st.sampled_from([9, 25])))
        trace = [{"cfg": cfg_},
                 {"_": "book", "dt": 1000, "rc": [{"r": r, "atb": [[t_ - 8, 50.0]], "atl": [[t_ - 2, third], [far, round(sz + 5, 2)]]}]},
                 {"_": "req", "op": "place", "si": 0, "r": r, "side": "LAY", "type": "LIMIT", "tick": t_, "size": sz, "pers": "LAPSE", "trade": "new",
                  "tif": "FILL_OR_KILL", "min_fill": draw(st.sampled_from([None, round(sz / 2, 2), 0.01]))},
                 tick_, tick_, {"_": "suspend", "dt": 1000, "bump": True}]
        results = ["LOSER"] * nr
        results[r] = "WINNER"
        trace.append({"_": "close", "dt": 1000, "results": results})
        return trace
    first = place(draw(st.sampled_from([0.9, 0.95, 0.6])))
    sp_first = odds_on_sp or (spec["bsp_market"] and draw(st.integers(0, 3)) == 0)
    if sp_first:
        # the first order is a starting-price order (its liability is the amount at risk whatever the side)
        first = {"_": "req", "op": "place", "si": 0, "r": r, "side": side, "type": draw(st.sampled_from(["MOC", "LOC"])) if not odds_on_sp else "MOC", "tick": tick,
                 "liability": round(lim * draw(st.sampled_from([0.6, 0.8, 0.95])), 2), "trade": "new"}
    trace = [{"cfg": cfg_},
             {"_": "book", "dt": 1000, "rc": [{"r": r, "atb": [[mid - 2, 50.0]], "atl": [[mid + 2, 50.0]]}]},
             first, tick_]
    for _ in range(draw(st.integers(1, 3))):
        k = draw(st.integers(0, 6))
        if k == 6 and not sp_first:
            # part of the resting order trades, then the remainder is re-priced (a replacement order of the remaining size)
            trace += [{"_": "book", "dt": 1000, "rc": [{"r": r, "trd": [[tick, round(sized(0.9) * draw(st.sampled_from([0.4, 1.0, 1.4])), 2)]]}]},
                      {"_": "req", "op": "replace", "si": 0, "o": 0, "pool": "exec", "ticks": draw(st.sampled_from([-2, -1, 1, 2]))}, tick_]
            continue
        if k <= 2:
            trace += [{"_": "req", "op": "cancel", "red": draw(st.sampled_from([0.3, 0.5, 0.8])), "si": 0, "o": draw(st.sampled_from([0, -1])), "pool": "any"}, tick_]
        elif k == 3:
            trace += [{"_": "req", "op": "cancel", "red": None, "si": 0, "o": -1, "pool": "any"}, tick_]
        elif k == 4:
            # part of the resting order trades
            trace += [{"_": "book", "dt": 1000, "rc": [{"r": r, "trd": [[tick, round(sized(0.9) * draw(st.sampled_from([0.4, 1.0])), 2)]]}]}]
        trace += [place(draw(st.sampled_from([0.3, 0.5, 0.8])), draw(st.sampled_from([None, None, "LAPSE"]))), tick_]
    sp_tick = tick + draw(st.sampled_from([0, 0, -6, 6]))
    bsp = [round(prices[mid], 2)] * nr
    bsp[r] = round(prices[sp_tick], 2)
    trace += [{"_": "inplay", "dt": 1000, "bet_delay": 1, "status": "OPEN", "bump": True, "bsp": bsp}, tick_]
    if odds_on_sp or draw(st.booleans()):
        # a further order once the starting price has been reconciled (in-play; the earlier orders are acknowledged)
        trace += [place(draw(st.sampled_from([0.3, 0.5, 0.8])), "PERSIST"), tick_, tick_, tick_]
    trace += [{"_": "suspend", "dt": 1000, "bump": True}]
    results = ["LOSER"] * nr
    results[r] = draw(st.sampled_from(["WINNER", "LOSER"]))
    if "WINNER" not in results:
        results[(r + 1) % nr] = "WINNER"
    trace.append({"_": "close", "dt": 1000, "results": results})
    return trace


def check_headroom(trace):
    return replay_trace(SimWorld, CHECKS, trace)


def sub_headroom(col, budget, seed, tier, shard, nshards):
    run_given(col, headroom_trace(), check_headroom, budget, seed, tier, "headroom")


def subchecks(tier):
    q = tier == "quick"
    return [SubCheck("decision", sub_decision, 900 if q else 30000), SubCheck("discipline", sub_discipline, 900 if q else 30000),
            SubCheck("headroom", sub_headroom, 400 if q else 20000)]


def replay(case, sub=None):
    replay_trace(SimWorld, CHECKS, case)
