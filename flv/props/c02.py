"""C02 - Refused requests change nothing; accepted requests are sent exactly once."""
from ..common import SubCheck, Violation, run_given
from ..machine import SimWorld, replay_trace
from . import _machines as M

PROPERTY = "C02"
LEVEL = "exploration"
SHARDS = {"quick": 8, "thorough": 16}
RULE = (
    "Rule-based state machine over a real stepped FlumineSimulation: place / cancel / update / replace made "
    "directly on the market or batched in market.transaction() (with explicit execute() calls, mixed market versions, "
    "bulk batches of 0, 1, 199, 200, 201, 450 placements and 1, 59, 60, 61, 130 cancels / updates / replaces), on "
    "fresh orders and on any existing order in any status (already placed, complete, in flight), forced or not; "
    "control outcomes steered by state (exposure and trade-count limits, invalid price / size, market not OPEN, "
    "client transaction limit 0, a custom control raising through _on_error on a drawn predicate). Oracle: "
    "before/after snapshot equality for every refused request (order, trade, blotter views, runner context) and "
    "package accounting over every transaction (each accepted request in exactly one package of the matching kind, "
    "<= 200/60/60/60 instructions, one market version per package, request order preserved, nothing left pending). "
    "Non-trivial: a refusal of a non-new order or a multi-package transaction; distinct = distinct trace JSON."
)
ASSUMPTIONS = [
    "violation_msg and the client assigned to a refused new order are diagnostic and not part of the compared state",
    "the Betfair-live execution path uses the same Transaction code and is exercised on the live double by C11/C12; for Betdaq the transaction / package layer is driven with a real BetdaqClient and real Betdaq orders (execution tasks are queued, never run; acknowledgement is set the way the execution layer sets it)",
]
CHECKS = ("noeffect",)


def sub_machine(col, budget, seed, tier, shard, nshards):
    M.run(col, SimWorld, CHECKS, M.base_cfg(limits="tight", custom_control=True, tx_limits=(None, 0, 3, 5000, 5000)), budget,
          30 if tier == "quick" else 60, seed, tier, "requests", rule_weights={"txn": 3, "resubmit": 1, "replace_through": 1})


def sub_bulk(col, budget, seed, tier, shard, nshards):
    M.run(col, SimWorld, CHECKS, M.base_cfg(limits="none", multi_strategy=False, tx_limits=(None,)), budget,
          8 if tier == "quick" else 14, seed, tier, "bulk",
          rule_weights={"bulk": 5, "place": 0, "follow": 0, "place_existing": 0, "remove": 0, "close": 0, "inplay": 0, "suspend": 0})


# ---- Betdaq client: the same Transaction code with BetdaqOrderPackage limits (10 / 10 / 50) -------------------


def betdaq_case():
    from hypothesis import strategies as st

    return st.fixed_dictionaries({
        "n_place": st.sampled_from([0, 1, 9, 10, 11, 25]),
        "bad": st.lists(st.sampled_from(["price", "size0", "size3dp", None, None]), min_size=0, max_size=4),
        "n_cancel": st.sampled_from([0, 1, 10, 11, 23]),
        "n_update": st.sampled_from([0, 1, 49, 50, 51]),
        "mvs": st.sampled_from([[None], [None, 7], [7, 8, None]]),
        "extra": st.lists(st.sampled_from(["cancel_reduction", "replace", "cancel_unacked", "update_unacked", "place_twice"]), max_size=4),
    })


def check_betdaq(c):
    from flumine import Flumine, BaseStrategy, clients
    from flumine.exceptions import FlumineException
    from flumine.order.order import BetdaqOrder
    from flumine.order.ordertype import BetdaqLimitOrder
    from flumine.order.trade import Trade
    from .. import simlab, livedouble, world
    from ..common import Violation
    import types

    with simlab.clean_config({"simulated": False}):
        client = clients.BetdaqClient(betting_client=types.SimpleNamespace(username="bdq"), username="bdq", order_stream=False)
        fw = Flumine(client)
        pool = livedouble.Deferred()
        fw.betdaq_execution._thread_pool.shutdown(wait=False)
        fw.betdaq_execution._thread_pool = pool
        fw.betdaq_execution._get_http_session = lambda: None
        pkgs = []
        orig = fw.process_order_package
        fw.process_order_package = lambda p: (pkgs.append(p), orig(p))[1]
        try:
            from flumine.streams.historicalstream import HistoricListener
            from flumine.events import events

            spec = world.default_market(0, 3)
            r = world.Renderer(spec)
            r.first()
            lst = HistoricListener(max_latency=None, update_clk=False)
            lst.register_stream(10, "marketSubscription")
            lst.on_data(r.lines[-1])
            fw._process_market_books(events.MarketBookEvent([x.create_resource(10, snap=True) for x in lst.stream._caches.values()]))
            m = fw.markets.markets[spec["id"]]
            strat = BaseStrategy(market_filter={"x": 1}, name="bq", max_order_exposure=None, max_selection_exposure=None,
                                 max_trade_count=10**6, max_live_trade_count=10**6)
            fw.strategies(strat, fw.clients, fw)

            def mk(price=2.0, size=2.0, runner=0):
                t = Trade(spec["id"], spec["runners"][runner]["id"], 0, strat)
                return t.create_betdaq_order("BACK", BetdaqLimitOrder(price, size, 1, 0, 0))

            def snap(o):
                rc = strat._invested.get(o.lookup)
                return (o.status, tuple(o.status_log), dict(o.update_data), o.order_type.price, o.order_type.size, o.bet_id, o.id in m.blotter, len(m.blotter),
                        o.trade.status, tuple(o.trade.status_log), None if rc is None else (tuple(rc.trades), tuple(rc.live_trades)))

            # ---- bulk placements in one transaction (incl. invalid ones that must be refused without effect)
            n0 = len(pkgs)
            accepted = []
            with m.transaction(client=client) as t:
                for i in range(c["n_place"]):
                    o = mk(size=2.0 + (i % 5))
                    mv = c["mvs"][i % len(c["mvs"])]
                    if t.place_order(o, market_version=mv):
                        accepted.append((o, mv))
                for b in c["bad"]:
                    o = mk(price=2.003 if b == "price" else 2.0, size=0.0 if b == "size0" else 2.005 if b == "size3dp" else 2.0)
                    before_rc = {k: (tuple(v.trades), tuple(v.live_trades)) for k, v in strat._invested.items()}
                    nb = len(m.blotter)
                    ok = t.place_order(o)
                    if b is None:
                        if ok:
                            accepted.append((o, None))
                        continue
                    after_rc = {k: (tuple(v.trades), tuple(v.live_trades)) for k, v in strat._invested.items() if k in before_rc}
                    if ok or o.status.name != "VIOLATION" or o.id in m.blotter or len(m.blotter) != nb or after_rc != before_rc:
                        raise Violation("refused-new-order-state", ("betdaq", b), "invalid Betdaq order (%s): accepted=%s status=%s in blotter=%s" % (b, ok, o.status, o.id in m.blotter), c)
            _check_pkgs(pkgs[n0:], [(o, mv) for o, mv in accepted], "PLACE", 10, t, c, versioned=True)
            placed = [o for o, _ in accepted]
            # ---- requests on orders that are not acknowledged yet are rejected without effect
            for what in c["extra"]:
                if not placed:
                    break
                o = placed[0]
                b4 = snap(o)
                np_ = len(pkgs)
                try:
                    if what == "cancel_unacked":
                        res = m.cancel_order(o)
                    elif what == "update_unacked":
                        res = m.update_order(o, size_delta=1.0)
                    elif what == "replace":
                        res = m.replace_order(o, 3.0)
                    elif what == "place_twice":
                        res = m.place_order(o, client=client)
                    else:
                        continue
                    err = None
                except FlumineException as e:
                    res, err = None, e
                if res is True or snap(o) != b4 or len(pkgs) != np_:
                    raise Violation("refused-request-changed-state", ("betdaq", what), "%s on an unacknowledged Betdaq order: result %s error %s, state %s -> %s" % (what, res, err, b4, snap(o)), c)
            # ---- acknowledge (as the execution layer would) and issue bulk cancels / updates
            for i, o in enumerate(placed):
                o.bet_id = 5000 + i
                o.executable()
            if "cancel_reduction" in c["extra"] and placed:
                o = placed[-1]
                b4 = snap(o)
                try:
                    res = m.cancel_order(o, size_reduction=1.0)
                except FlumineException:
                    res = None
                if res is True or snap(o) != b4:
                    raise Violation("refused-request-changed-state", ("betdaq", "cancel-with-reduction"), "Betdaq cancel with a size reduction must be rejected without effect", c)
            n0 = len(pkgs)
            acc = []
            with m.transaction(client=client) as t:
                for o in placed[: c["n_cancel"]]:
                    if t.cancel_order(o):
                        acc.append((o, None))
            _check_pkgs(pkgs[n0:], acc, "CANCEL", 10, t, c)
            n0 = len(pkgs)
            acc = []
            rest = placed[c["n_cancel"]:]
            while len(rest) < c["n_update"] and len(rest) < 60:
                o = mk()
                if m.place_order(o, client=client):
                    o.bet_id = 9000 + len(rest)
                    o.executable()
                    rest.append(o)
                else:
                    break
            n0 = len(pkgs)
            with m.transaction(client=client) as t:
                for o in rest[: c["n_update"]]:
                    if t.update_order(o, size_delta=1.0, new_price=3.0):
                        acc.append((o, None))
            _check_pkgs(pkgs[n0:], acc, "UPDATE", 50, t, c)
        finally:
            fw.simulated_execution.shutdown()
            fw.betfair_execution.shutdown()
    nt = c["n_place"] > 10 or c["n_cancel"] > 10 or c["n_update"] > 50 or bool([b for b in c["bad"] if b]) or bool(c["extra"])
    return nt, ("betdaq",)


def _check_pkgs(pk, accepted, kind, limit, txn, c, versioned=False):
    from ..common import Violation

    sent = []
    for p in pk:
        if p.package_type.name != kind:
            raise Violation("package-kind", (kind, "betdaq"), "package type %s in a %s transaction" % (p.package_type.name, kind), c)
        if not (0 < len(p._orders) <= limit):
            raise Violation("package-over-limit", (kind, "betdaq"), "%d instructions in one Betdaq %s package (limit %d)" % (len(p._orders), kind, limit), c)
        for o in p._orders:
            sent.append((id(o), p._market_version))
    exp = [(id(o), mv) for o, mv in accepted]
    if sorted(sent) != sorted(exp):
        raise Violation("accepted-request-not-sent-once", (kind.lower(), "betdaq"), "%d accepted requests, %d orders in packages (or market versions differ)" % (len(exp), len(sent)), c)
    for mv in {v for _, v in exp}:
        if [i for i, v in sent if v == mv] != [i for i, v in exp if v == mv]:
            raise Violation("package-order", (kind, "betdaq"), "request order not preserved", c)
    if txn._pending_place or txn._pending_cancel or txn._pending_update or txn._pending_replace or txn._pending_orders:
        raise Violation("transaction-left-pending", ("betdaq",), "pending lists not empty after the transaction ended", c)


def sub_betdaq(col, budget, seed, tier, shard, nshards):
    from ..common import run_given

    run_given(col, betdaq_case(), check_betdaq, budget, seed, tier, "betdaq")


# ---- whole runs, single-market and event-grouped: every accepted request reaches the (simulated) exchange once ----


def check_delivery(sc):
    """Scenarios of the C07 generator (1-3 markets, event-grouped with interleaved publish times, requests on other
    markets of the event, all latencies).  Every package the framework created for an accepted request is executed
    exactly once, unless its market has no later update than its latency (+ bet delay) - then it is still queued."""
    from .. import simlab
    from ..common import crash_violation

    lb = simlab.run_scenario(sc, snapshots=False)
    if lb.error is not None:
        raise crash_violation(lb.error, sc, "run-aborted")
    classes = set()
    nt = False
    import datetime as dt

    epoch = dt.datetime(1970, 1, 1)
    last_pt = {m["id"]: lb.renderers[i].updates[-1].pt for i, m in enumerate(sc["markets"])}
    for pk in lb.packages:
        n = sum(1 for x in lb.executed if x is pk)
        if n > 1:
            raise Violation("accepted-request-not-sent-once", (pk.package_type.name, "executed-%d-times" % n),
                            "a %s package of market %s was executed %d times" % (pk.package_type.name, pk.market_id, n), sc)
        if n == 0:
            # legitimate only when the recording of its market ends before the request could take effect
            made = (pk.date_time_created - epoch).total_seconds() * 1000
            due = made + float(pk.simulated_delay) * 1000
            if last_pt[pk.market_id] > due + 1e-6:
                raise Violation("accepted-request-not-sent-once", (pk.package_type.name, "lost"),
                                "a %s package of market %s (orders %s) made at %d, due after %d, was never executed although the market has an update at %d" % (
                                    pk.package_type.name, pk.market_id, [o.status.name if o.status else None for o in pk._orders], made, due, last_pt[pk.market_id]), sc)
            classes.add("recording-ended-before-the-request-was-due")
    if lb.packages:
        classes.add("packages")
        if sc.get("event_processing") and len(sc["markets"]) > 1:
            nt = True
            classes.add("event-grouped")
    return nt, classes


def sub_delivery(col, budget, seed, tier, shard, nshards):
    from . import c07

    run_given(col, c07.scenario(tier), check_delivery, budget, seed, tier, "delivery")


def subchecks(tier):
    q = tier == "quick"
    return [SubCheck("requests", sub_machine, 1400 if q else 40000), SubCheck("bulk", sub_bulk, 160 if q else 4000),
            SubCheck("betdaq", sub_betdaq, 400 if q else 8000), SubCheck("delivery", sub_delivery, 800 if q else 30000)]


def replay(case, sub=None):
    if isinstance(case, dict) and "n_place" in case:
        check_betdaq(case)
    elif isinstance(case, dict) and "markets" in case:
        check_delivery(case)
    else:
        replay_trace(SimWorld, CHECKS, case)
