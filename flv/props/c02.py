"""C02 - Refused requests change nothing; accepted requests are sent exactly once."""
from ..common import SubCheck
from ..machine import SimWorld, replay_trace
from . import _machines as M

PROPERTY = "C02"
LEVEL = "exploration"
SHARDS = {"quick": 8, "thorough": 16}
RULE = (
    "Rule-based state machine over a real stepped FlumineSimulation: place / cancel / update / replace made "
    "directly on the market or batched in market.transaction() (with explicit execute() calls, mixed market versions, "
    "bulk batches of 0, 1, 199, 200, 201, 450 placements and 1, 59, 60, 61, 130 cancels / updates / replaces), on "
    "fresh orders and on any existing order in any status (already placed, complete, in flight), forced or not; "
    "control outcomes steered by state (exposure and trade-count limits, invalid price / size, market not OPEN, "
    "client transaction limit 0, a custom control raising through _on_error on a drawn predicate). Oracle: "
    "before/after snapshot equality for every refused request (order, trade, blotter views, runner context) and "
    "package accounting over every transaction (each accepted request in exactly one package of the matching kind, "
    "<= 200/60/60/60 instructions, one market version per package, request order preserved, nothing left pending). "
    "Non-trivial: a refusal of a non-new order or a multi-package transaction; distinct = distinct trace JSON."
)
ASSUMPTIONS = [
    "violation_msg and the client assigned to a refused new order are diagnostic and not part of the compared state",
    "Betfair-live and Betdaq execution paths use the same Transaction code; they are exercised on the live double by C11/C12",
]
CHECKS = ("noeffect",)


def sub_machine(col, budget, seed, tier, shard, nshards):
    M.run(col, SimWorld, CHECKS, M.base_cfg(limits="tight", custom_control=True, tx_limits=(None, 0, 3, 5000, 5000)), budget,
          30 if tier == "quick" else 60, seed, tier, "requests", rule_weights={"txn": 3})


def sub_bulk(col, budget, seed, tier, shard, nshards):
    M.run(col, SimWorld, CHECKS, M.base_cfg(limits="none", multi_strategy=False, tx_limits=(None,)), budget,
          8 if tier == "quick" else 14, seed, tier, "bulk",
          rule_weights={"bulk": 5, "place": 0, "follow": 0, "place_existing": 0, "remove": 0, "close": 0, "inplay": 0, "suspend": 0})


def subchecks(tier):
    q = tier == "quick"
    return [SubCheck("requests", sub_machine, 1400 if q else 40000), SubCheck("bulk", sub_bulk, 160 if q else 4000)]


def replay(case, sub=None):
    replay_trace(SimWorld, CHECKS, case)
