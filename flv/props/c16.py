"""C16 - Reported exposure equals the true worst case."""
import types

from hypothesis import strategies as st

from .. import simlab
from ..common import SubCheck, Violation, run_given
from ..oracles import exposure as X
from ..oracles import ladder as L

PROPERTY = "C16"
LEVEL = "exploration"
SHARDS = {"quick": 8, "thorough": 16}
RULE = (
    "Blotters filled with real order objects (simulated mode: state set through the real status methods and "
    "SimulatedOrder fills; live mode: real CurrentOrder resources): up to 4 selections x up to 4 orders (6 in "
    "thorough), both sides, LIMIT / LIMIT_ON_CLOSE / MARKET_ON_CLOSE, classic / finest / line ladders, any "
    "matched/remaining split, every order status (EXPIRED only unmatched), 1-3 winners, active runners >= runners "
    "with orders, plus orders of a second strategy that must be ignored; one order in six was refused by a control on "
    "an earlier attempt (VIOLATION) and then submitted again. Oracle: brute force over every subset of "
    "open orders and every admissible winner set; metamorphic exclusion / new_order relations; after all queries a "
    "runner removal is applied with the simulation's own routine and every figure is asked for again (the figures are "
    "a function of the current state). Non-trivial: a "
    "selection with >= 2 open orders of both sides plus a matched position, or a removal that changed a position that "
    "had been queried before; distinct = distinct case JSON."
)
ASSUMPTIONS = [
    "starting-price orders count their liability against the losing (BACK) / winning (LAY) outcome whatever their status, as the statement's 'starting-price liabilities'",
    "tolerance 0.011 + 0.005 per separately rounded term + 0.005*matched size (2dp average price)",
]

STATUSES = ["PENDING", "EXECUTABLE", "EXECUTABLE", "EXECUTABLE", "CANCELLING", "UPDATING", "REPLACING",
            "EXECUTION_COMPLETE", "EXECUTION_COMPLETE", "EXPIRED", "VIOLATION"]
LINE = [float(x) for x in L.line_ticks(0.5, 40.5, 1)]


@st.composite
def order_spec(draw, ladder):
    typ = draw(st.sampled_from(["LIMIT", "LIMIT", "LIMIT", "LIMIT", "LOC", "MOC"])) if ladder != "LINE_RANGE" else "LIMIT"
    side = draw(st.sampled_from(["BACK", "LAY"]))
    status = draw(st.sampled_from(STATUSES))
    ticks = {"CLASSIC": L.CLASSIC, "FINEST": L.FINEST[:2000], "LINE_RANGE": LINE}[ladder]
    o = {"type": typ, "side": side, "status": status}
    if typ == "LIMIT":
        size_c = draw(st.integers(1, 20000))
        o["price"] = ticks[draw(st.integers(0, min(len(ticks) - 1, 250)))]
        o["size"] = size_c / 100
        left = size_c
        frags = []
        if status not in ("PENDING", "VIOLATION", "EXPIRED"):
            for _ in range(draw(st.integers(0, 3))):
                if left <= 0:
                    break
                s = draw(st.integers(1, left))
                if draw(st.integers(0, 3)) == 0:
                    s = left
                frags.append([ticks[draw(st.integers(0, min(len(ticks) - 1, 250)))], s / 100])
                left -= s
        o["frags"] = frags
        canc = 0
        if status in ("EXECUTION_COMPLETE", "EXPIRED"):
            canc = left  # nothing remains on a complete order
        elif status != "PENDING" and status != "VIOLATION" and left > 1 and draw(st.booleans()):
            canc = draw(st.integers(0, left - 1))
        o["cancelled"] = canc / 100
        o["bucket"] = draw(st.sampled_from(["cancelled", "lapsed", "voided"]))
        # live only: placement given up after exhausted retries - complete without any exchange response
        o["noresp"] = status == "EXECUTION_COMPLETE" and draw(st.integers(0, 3)) == 0
    else:
        o["liability"] = draw(st.integers(1, 20000)) / 100
        if typ == "LOC":
            o["price"] = ticks[draw(st.integers(0, 250))]
    # the order object was refused by a control on an earlier attempt (VIOLATION, never sent) and submitted again
    o["resub"] = status != "VIOLATION" and draw(st.integers(0, 5)) == 0
    return o


@st.composite
def case(draw, tier="quick"):
    maxo = 4 if tier == "quick" else 6
    ns = draw(st.integers(1, 4))
    ladder = draw(st.sampled_from(["CLASSIC", "CLASSIC", "FINEST", "LINE_RANGE"]))
    sels = []
    shared = draw(st.integers(0, 3)) == 0  # handicap market: the same selection id on several lines
    for i in range(ns):
        n = draw(st.integers(0 if i else 1, maxo))
        if shared:
            sel, hc = 1001 + (i % 2), [0, 1.5, -1.5, 2.5][i]
        else:
            sel, hc = 1001 + i, draw(st.sampled_from([0, 0, 0, 1.5]))
        sels.append({"sel": sel, "hc": hc, "orders": [draw(order_spec(ladder)) for _ in range(n)]})
    other = [draw(order_spec(ladder)) for _ in range(draw(st.integers(0, 2)))]
    return {"ladder": ladder, "sels": sels, "other": other, "n_active": ns + draw(st.integers(0, 3)),
            "n_winners": draw(st.integers(1, 3)), "live": draw(st.integers(0, 3)) == 0,
            "probe_sel": draw(st.integers(0, ns - 1)), "probe_order": draw(st.integers(0, 5)),
            "new": draw(order_spec(ladder)),
            # the second strategy (whose orders must be ignored) may carry the SAME name: two instances of one class
            "same_name": draw(st.integers(0, 3)) == 0,
            # after all queries: a runner is declared a non-runner (the simulation's own removal routine voids the
            # orders on it and reduces the matched prices elsewhere), then every figure is asked for again
            "removal": {"si": draw(st.integers(0, ns - 1)), "af": draw(st.sampled_from([1.0, 2.5, 10.0, 40.0, 99.0]))}}


def build_order(strategy, market_id, sel, hc, spec, ladder, client, live):
    from flumine.order.trade import Trade
    from flumine.order.ordertype import LimitOrder, LimitOnCloseOrder, MarketOnCloseOrder
    from betfairlightweight.resources.bettingresources import CurrentOrder

    trade = Trade(market_id, sel, hc, strategy)
    if spec["type"] == "LIMIT":
        ot = LimitOrder(spec["price"], spec["size"], price_ladder_definition=ladder)
    elif spec["type"] == "LOC":
        ot = LimitOnCloseOrder(spec["liability"], spec["price"])
    else:
        ot = MarketOnCloseOrder(spec["liability"])
    order = trade.create_order(spec["side"], ot)
    order.update_client(client)
    return order


def apply_state(order, spec, live):
    from betfairlightweight.resources.bettingresources import CurrentOrder

    status = spec["status"]
    if status == "VIOLATION":
        order.violation("x")
        return
    if spec.get("resub"):
        order.violation("refused on an earlier attempt")
    order.placing()
    if status == "PENDING":
        return
    order.bet_id = "1"
    if spec["type"] == "LIMIT":
        if not live:
            for p, s in spec["frags"]:
                order.simulated._update_matched([1, p, s])
            setattr(order.simulated, "size_" + spec["bucket"], spec["cancelled"])
        elif spec.get("noresp"):
            pass
        else:
            sm = round(sum(s for _, s in spec["frags"]), 2)
            apm = round(sum(p * s for p, s in spec["frags"]) / sm, 2) if sm else 0.0
            rem = round(spec["size"] - sm - spec["cancelled"], 2)
            order.responses.current_order = CurrentOrder(
                betId="1", marketId=order.market_id, selectionId=order.selection_id, handicap=order.handicap,
                priceSize={"price": spec["price"], "size": spec["size"]}, bspLiability=0.0, side=spec["side"],
                status="EXECUTABLE", persistenceType="LAPSE", orderType="LIMIT", placedDate="2020-01-01T00:00:00.000Z",
                averagePriceMatched=apm, sizeMatched=sm, sizeRemaining=rem, sizeLapsed=0.0,
                sizeCancelled=spec["cancelled"], sizeVoided=0.0, regulatorCode="x")
    order.executable()
    getattr(order, {"EXECUTABLE": "executable", "CANCELLING": "cancelling", "UPDATING": "updating",
                    "REPLACING": "replacing", "EXECUTION_COMPLETE": "execution_complete",
                    "EXPIRED": "execution_complete"}[status])()
    if status == "EXPIRED":
        from flumine.order.order import OrderStatus

        order._update_status(OrderStatus.EXPIRED)


def position(order, spec, ladder, live=False):
    """independent description of what counts, from the *spec* (not from flumine's accessors)"""
    if spec["status"] in ("PENDING", "VIOLATION", "EXPIRED"):
        return None
    if spec["type"] != "LIMIT":
        return {"side": spec["side"], "kind": "SP", "liability": spec["liability"]}
    sm = round(sum(s for _, s in spec["frags"]), 2)
    rem = round(spec["size"] - sm - spec["cancelled"], 2)
    complete = spec["status"] in ("EXECUTION_COMPLETE",)
    if live and spec.get("noresp"):
        return {"side": spec["side"], "kind": "LIMIT", "fills": [], "open": None, "line": ladder == "LINE_RANGE"}
    return {"side": spec["side"], "kind": "LIMIT", "fills": [tuple(f) for f in spec["frags"]],
            "open": (spec["price"], rem) if (not complete and rem > 0) else None, "line": ladder == "LINE_RANGE"}


def check(c):
    from flumine import BaseStrategy, clients
    from flumine.markets.blotter import Blotter

    live = c["live"]
    with simlab.clean_config({"simulated": not live}):
        if live:
            client = clients.BetfairClient(betting_client=None, username="l")
        else:
            client = clients.SimulatedClient(username="s")
        strat = BaseStrategy(market_filter={}, name="S")
        other = BaseStrategy(market_filter={}, name="S" if c.get("same_name") else "O")
        mid = "1.100000000"
        blotter = Blotter(mid)
        objs = {}
        pos = {}
        ladder = c["ladder"]
        for si, s in enumerate(c["sels"]):
            for oi, spec in enumerate(s["orders"]):
                o = build_order(strat, mid, s["sel"], s["hc"], spec, ladder, client, live)
                blotter[o.id] = o
                apply_state(o, spec, live)
                objs[(si, oi)] = o
                pos[(si, oi)] = position(o, spec, ladder, live)
        for spec in c["other"]:
            o = build_order(other, mid, c["sels"][0]["sel"], c["sels"][0]["hc"], spec, ladder, client, live)
            blotter[o.id] = o
            apply_state(o, spec, live)
        mb = types.SimpleNamespace(number_of_active_runners=c["n_active"], number_of_winners=c["n_winners"])
        classes = {"live" if live else "simulated", "ladder:" + ladder}
        if c.get("same_name") and c["other"]:
            classes.add("other-strategy-with-the-same-name")
        if any(o.get("resub") for s_ in c["sels"] for o in s_["orders"]):
            classes.add("order-resubmitted-after-refusal")
        nontrivial = False
        per_runner = []

        def tol(ps):
            m = sum(s for p in ps if p and p["kind"] == "LIMIT" for _, s in p["fills"])
            return 0.011 + 0.005 * 4 + 0.005 * m

        def sel_positions(si, exclude=None, extra=None):
            ps = [pos[(si, oi)] for oi in range(len(c["sels"][si]["orders"])) if (si, oi) != exclude]
            ps = [p for p in ps if p]
            if extra:
                ps.append(extra)
            return ps

        for si, s in enumerate(c["sels"]):
            lookup = (mid, s["sel"], s["hc"])
            ps = sel_positions(si)
            exp = X.selection_worst(ps)
            got = blotter.get_exposures(strat, lookup)
            t = tol(ps)
            pairs = [("matched_profit_if_win", "matched_win"), ("matched_profit_if_lose", "matched_lose"),
                     ("worst_potential_unmatched_profit_if_win", "unmatched_win"),
                     ("worst_potential_unmatched_profit_if_lose", "unmatched_lose"),
                     ("worst_possible_profit_on_win", "win"), ("worst_possible_profit_on_lose", "lose")]
            for gk, ek in pairs:
                if abs(got[gk] - exp[ek]) > t:
                    raise Violation("get-exposures", (gk, "live" if live else "sim"),
                                    "selection %s: %s=%s, brute force %s (orders %s)" % (s["sel"], gk, got[gk], exp[ek], s["orders"]), c)
            se = blotter.selection_exposure(strat, lookup)
            exp_se = max(0.0, -min(exp["win"], exp["lose"]))
            if abs(se - exp_se) > t:
                raise Violation("selection-exposure", ("live" if live else "sim",), "selection %s: %s, brute force %s" % (s["sel"], se, exp_se), c)
            per_runner.append((exp["win"], exp["lose"]))
            opens = [p for p in ps if p["kind"] == "LIMIT" and p["open"]]
            if len({p["side"] for p in opens}) == 2 and any(p["kind"] == "LIMIT" and p["fills"] for p in ps):
                nontrivial = True
                classes.add("both-sides-open+matched")
            for p in ps:
                classes.add("kind:" + p["kind"])
        all_ps = [p for v in pos.values() if v for p in [v]]
        me = blotter.market_exposure(strat, mb)
        exp_me = X.market_worst(per_runner, c["n_active"], c["n_winners"])
        if abs(me - exp_me) > tol(all_ps) * max(1, len(c["sels"])):
            raise Violation("market-exposure", ("winners:%d" % c["n_winners"],),
                            "market exposure %s, brute force over winner sets %s (per runner %s, active %d, winners %d)" % (
                                me, exp_me, per_runner, c["n_active"], c["n_winners"]), c)
        # ---- metamorphic: exclusion / new_order
        si = c["probe_sel"]
        s = c["sels"][si]
        lookup = (mid, s["sel"], s["hc"])
        if s["orders"]:
            oi = c["probe_order"] % len(s["orders"])
            o = objs[(si, oi)]
            ps = sel_positions(si, exclude=(si, oi))
            exp = X.selection_worst(ps)
            got = blotter.get_exposures(strat, lookup, exclusion=o)
            if abs(got["worst_possible_profit_on_win"] - exp["win"]) > tol(ps) or abs(got["worst_possible_profit_on_lose"] - exp["lose"]) > tol(ps):
                raise Violation("exclusion", (s["orders"][oi]["status"],), "exclusion of %s: got %s, as-if-removed %s" % (s["orders"][oi], got, exp), c)
            pr = list(per_runner)
            pr[si] = (exp["win"], exp["lose"])
            me = blotter.market_exposure(strat, mb, exclusion=o)
            exp_me = X.market_worst(pr, c["n_active"], c["n_winners"])
            if abs(me - exp_me) > tol(all_ps) * max(1, len(c["sels"])):
                raise Violation("exclusion-market", (), "market exposure with exclusion %s, as-if-removed %s" % (me, exp_me), c)
            classes.add("exclusion:" + s["orders"][oi]["status"])
        nspec = dict(c["new"])
        if nspec["status"] in ("PENDING", "VIOLATION", "EXPIRED"):
            nspec["status"] = "EXECUTABLE"
            nspec["frags"] = []
            nspec["cancelled"] = 0.0
        new = build_order(strat, mid, s["sel"], s["hc"], nspec, ladder, client, live)
        apply_state(new, nspec, live)
        npos = position(new, nspec, ladder, live)
        ps = sel_positions(si, extra=npos)
        exp = X.selection_worst(ps)
        got = blotter.get_exposures(strat, lookup, new_order=new)
        if abs(got["worst_possible_profit_on_win"] - exp["win"]) > tol(ps) or abs(got["worst_possible_profit_on_lose"] - exp["lose"]) > tol(ps):
            raise Violation("new-order", (nspec["type"],), "new_order %s: got %s, as-if-added %s" % (nspec, got, exp), c)
        pr = list(per_runner)
        pr[si] = (exp["win"], exp["lose"])
        me = blotter.market_exposure(strat, mb, new_order=new)
        exp_me = X.market_worst(pr, c["n_active"], c["n_winners"])
        if abs(me - exp_me) > tol(all_ps + [npos]) * max(1, len(c["sels"])):
            raise Violation("new-order-market", (), "market exposure with new_order %s, as-if-added %s" % (me, exp_me), c)
        # a prospective order that has not been sent: never submitted before (status None) or refused by a control on
        # an earlier attempt (status VIOLATION) - it counts in full with its whole size / liability open
        fresh = build_order(strat, mid, s["sel"], s["hc"], nspec, ladder, client, live)
        refused_before = bool(c["new"].get("resub")) or c["new"]["status"] == "VIOLATION"
        if refused_before:
            fresh.violation("refused on an earlier attempt")
            classes.add("prospective-order-refused-before")
        if nspec["type"] == "LIMIT":
            fpos = {"side": nspec["side"], "kind": "LIMIT", "fills": [], "open": (nspec["price"], nspec["size"]), "line": ladder == "LINE_RANGE"}
        else:
            fpos = {"side": nspec["side"], "kind": "SP", "liability": nspec["liability"]}
        ps = sel_positions(si, extra=fpos)
        exp = X.selection_worst(ps)
        got = blotter.get_exposures(strat, lookup, new_order=fresh)
        if abs(got["worst_possible_profit_on_win"] - exp["win"]) > tol(ps) or abs(got["worst_possible_profit_on_lose"] - exp["lose"]) > tol(ps):
            raise Violation("new-order", (nspec["type"], "unsent", "refused-before" if refused_before else "never-submitted"),
                            "prospective order %s: got %s, as-if-added %s" % (nspec, got, exp), c)
        pr = list(per_runner)
        pr[si] = (exp["win"], exp["lose"])
        me = blotter.market_exposure(strat, mb, new_order=fresh)
        exp_me = X.market_worst(pr, c["n_active"], c["n_winners"])
        if abs(me - exp_me) > tol(all_ps + [fpos]) * max(1, len(c["sels"])):
            raise Violation("new-order-market", ("unsent", "refused-before" if refused_before else "never-submitted"),
                            "market exposure with the prospective order %s, as-if-added %s" % (me, exp_me), c)
        # ---- the figures are a function of the CURRENT state of the orders: a removal changes matched positions
        rm = c.get("removal")
        if rm and not live and ladder != "LINE_RANGE" and rm["si"] < len(c["sels"]):
            from flumine.markets.middleware import SimulatedMiddleware

            rs = c["sels"][rm["si"]]
            market_ns = types.SimpleNamespace(market_id=mid, blotter=blotter, market_type="MATCH_ODDS", market_book=None)
            SimulatedMiddleware()._process_runner_removal(market_ns, rs["sel"], rs["hc"], rm["af"])
            classes.add("requery-after-removal")
            for si2, s2 in enumerate(c["sels"]):
                removed = (s2["sel"], s2["hc"]) == (rs["sel"], rs["hc"])
                ps = []
                for oi in range(len(s2["orders"])):
                    p_ = pos[(si2, oi)]
                    if not p_:
                        continue
                    if p_["kind"] != "LIMIT":
                        ps.append(p_)
                    elif removed:
                        ps.append(dict(p_, fills=[], open=None))  # voided in full
                    elif rm["af"] >= 2.5:
                        ps.append(dict(p_, fills=[(max(round(pr_ * (1 - rm["af"] / 100), 2), 1.01), sz_) for pr_, sz_ in p_["fills"]]))
                    else:
                        ps.append(p_)
                if removed and any(p_["kind"] != "LIMIT" for p_ in ps):
                    continue  # (starting-price orders on the non-runner: not judged)
                exp = X.selection_worst(ps)
                got = blotter.get_exposures(strat, (mid, s2["sel"], s2["hc"]))
                t = tol(ps)
                for gk, ek in (("matched_profit_if_win", "matched_win"), ("matched_profit_if_lose", "matched_lose"),
                               ("worst_possible_profit_on_win", "win"), ("worst_possible_profit_on_lose", "lose")):
                    if abs(got[gk] - exp[ek]) > t:
                        raise Violation("get-exposures", (gk, "after-removal", "removed-runner" if removed else "other-runner"),
                                        "selection %s after the removal of %s (factor %s): %s=%s, brute force on the current state %s" % (
                                            (s2["sel"], s2["hc"]), (rs["sel"], rs["hc"]), rm["af"], gk, got[gk], exp[ek]), c)
                before = [pos[(si2, oi)] for oi in range(len(s2["orders"])) if pos[(si2, oi)]]
                if ps != before:
                    nontrivial = True
                    classes.add("requery:position-changed-by-removal")
    return nontrivial, classes


def sub_given(col, budget, seed, tier, shard, nshards):
    run_given(col, case(tier), check, budget, seed, tier, "blotters")


def subchecks(tier):
    return [SubCheck("blotters", sub_given, 24000 if tier == "quick" else 1500000)]


def replay(c, sub=None):
    check(c)
