"""C08 - Settlement: simulated profit follows the exchange's rules."""
from fractions import Fraction as F

from hypothesis import strategies as st

from .. import gen, simlab, world
from ..common import SubCheck, Violation, run_given, crash_violation
from ..oracles import settlement

PROPERTY = "C08"
LEVEL = "exploration"
SHARDS = {"quick": 8, "thorough": 16}
RULE = (
    "Whole simulation runs that install fills by really matching orders (aggressive multi-level fills against "
    "generated books, passive fills, SP reconciliation of LIMIT_ON_CLOSE / MARKET_ON_CLOSE orders, prices reduced by "
    "a non-runner) and then deliver a real CLOSED market book: results WINNER/LOSER/PLACED/REMOVED, 1-5 dead-heating "
    "winners in a one-winner market, each-way divisors 2-5, line results above/below/equal to the struck line "
    "(including 0), commission 0/0.02/0.05/0.1, 1-8 orders, 1-2 clients. Oracle: exact Fraction settlement per fill; "
    "mirror-order antisymmetry; cleared summary per client. Non-trivial: >= 2 fills at different prices or a "
    "dead-heat / each-way / line result; distinct = distinct scenario JSON."
)
ASSUMPTIONS = [
    "tolerance |profit - exact| <= 0.005*size_matched (+50% for each-way) + 0.011 because the code works from the 2dp average_price_matched; 0.011 when all fills share one price",
    "each-way combined with a dead heat is outside (the code logs it as unimplemented, the statement does not claim it)",
    "dead heats are generated in one-winner markets only (as quantified by the property)",
    "line markets: BACK (sell) wins below the struck line, LAY (buy) above, even money; the rule for result == line is not assumed - only antisymmetry is required there",
]


@st.composite
def scenario(draw, tier="quick"):
    kind = draw(st.sampled_from(["WIN", "WIN", "DEADHEAT", "PLACE", "EACH_WAY", "MATCH_ODDS", "LINE", "LINE", "HANDICAP"]))
    nr = draw(st.integers(2, 5))
    spec = world.default_market(0, nr)
    spec["market_type"] = {"DEADHEAT": "WIN", "HANDICAP": "ASIAN_HANDICAP"}.get(kind, kind)
    if kind == "HANDICAP":
        # the same selection id on several handicap lines that settle differently
        nr = min(nr, 4)
        spec["runners"] = [{"id": 1001 + (i % 2), "hc": [-0.5, 0.5, -1.5, 1.5][i], "af": None} for i in range(nr)]
        spec["bsp_market"] = False
        spec["number_of_winners"] = 0  # as in the exchange's handicap markets (each line settles on its own, no dead heat)
    if kind == "LINE":
        iv = draw(st.sampled_from([0.5, 1.0]))
        lo = draw(st.sampled_from([0, 0.5, 100]))
        spec["ladder"] = {"type": "LINE_RANGE", "min": lo, "max": lo + 40 * iv, "interval": iv}
        spec["betting_type"] = "LINE"
        spec["bsp_market"] = False
        nr = 1
        spec["runners"] = spec["runners"][:1]
    elif kind == "EACH_WAY":
        spec["each_way_divisor"] = draw(st.sampled_from([2, 3, 4, 5]))
    elif kind == "PLACE":
        spec["number_of_winners"] = min(nr - 1, draw(st.integers(2, 3)))
    spec["bsp_market"] = spec["bsp_market"] and kind not in ("MATCH_ODDS", "HANDICAP") and draw(st.integers(0, 2)) > 0
    nt = len(world.ladder_prices(spec))
    mids = [draw(st.integers(6, min(nt - 7, 200))) for _ in range(nr)]
    steps = []
    rcs = []
    states_books = []
    for r in range(nr):
        atb, atl = draw(gen.book_side_pair(nt, mids[r], max_levels=5, allow_empty=False))
        rcs.append({"r": r, "atb": atb, "atl": atl})
        states_books.append((atb, atl))
    steps.append({"dt": 1000, "k": "book", "rc": rcs})
    state = {"books": states_books, "status": "OPEN"}
    # orders at update 1
    ops = []
    n_orders = draw(st.integers(1, 8))
    kinds = ("LIMIT", "LIMIT", "LIMIT", "LOC", "MOC") if spec["bsp_market"] else ("LIMIT",)
    for _ in range(n_orders):
        op = draw(gen.place_op(spec, state, nr, kinds=kinds, fok=False, pers=True, sp=spec["bsp_market"], mv=False,
                               sizes="level"))
        ops.append(op)
    # directed: a taker crossing two or more levels on runner 0 (fills at several prices); another runner is then
    # removed with a factor >= 2.5 and nothing fills afterwards - the settled average must follow the reduced fills
    directed_mp = kind != "LINE" and nr >= 3 and draw(st.integers(0, 3)) == 0
    if directed_mp:
        side_ = draw(st.sampled_from(["BACK", "LAY"]))
        lv = states_books[0][0] if side_ == "BACK" else states_books[0][1]
        if len(lv) >= 2:
            k_ = draw(st.integers(1, len(lv) - 1))
            ops.append({"op": "place", "r": 0, "side": side_, "type": "LIMIT", "tick": lv[k_][0],
                        "size": round(sum(x[1] for x in lv[: k_ + 1]) - draw(st.sampled_from([0, 0.01])), 2), "pers": "LAPSE"})
        else:
            directed_mp = False
    n_clients = draw(st.sampled_from([1, 1, 2]))
    strategies = []
    # a second strategy trades through its own client or (one time in three) through the SAME client: the cleared
    # summary and its commission are per client and market, whatever strategy the bets belong to
    two = n_clients == 2 or draw(st.integers(0, 2)) == 0
    split = draw(st.integers(0, len(ops))) if two else len(ops)
    strategies.append(gen.strategy_spec("A", client=0, script=[{"m": 0, "at": 1, "ops": ops[:split]}] if ops[:split] else []))
    if two:
        strategies.append(gen.strategy_spec("B", client=1 if n_clients == 2 else 0, script=[{"m": 0, "at": 1, "ops": ops[split:]}] if ops[split:] else []))
    # the executing update, then (sometimes) a price replacement of a resting order, then passive trades
    steps.append({"dt": 1000, "k": "book", "rc": []})
    if draw(st.integers(0, 2)) == 0:
        strategies[0]["script"].append({"m": 0, "at": 2, "ops": [{"op": "replace", "o": draw(st.integers(0, 7)), "ticks": draw(st.sampled_from([-4, -1, 1, 3]))}]})
        steps.append({"dt": 1000, "k": "book", "rc": []})
    for _ in range(draw(st.integers(0, 4))):
        r = draw(st.integers(0, nr - 1))
        steps.append({"dt": 500, "k": "book", "rc": [{"r": r, "trd": [[max(0, min(nt - 1, mids[r] + draw(st.integers(-4, 4)))),
                                                                      gen.size_c(draw, 2, 20000) / 100]]}]})
    removed = set()
    if directed_mp:
        r = draw(st.integers(1, nr - 1))
        removed.add(r)
        steps.append({"dt": 500, "k": "remove", "r": r, "af": draw(st.sampled_from([2.5, 10, 33.3]))})
    elif kind != "LINE" and nr >= 3 and draw(st.integers(0, 3)) == 0:
        r = draw(st.integers(0, nr - 1))
        removed.add(r)
        steps.append({"dt": 500, "k": "remove", "r": r, "af": draw(st.sampled_from([1.0, 2.5, 10, 33.3]))})
        # further passive fills AFTER the removal (fills before it were reduced, these are not)
        for _ in range(draw(st.integers(0, 2))):
            r2 = draw(st.sampled_from([x for x in range(nr) if x != r]))
            steps.append({"dt": 500, "k": "book", "rc": [{"r": r2, "trd": [[max(0, min(nt - 1, mids[r2] + draw(st.integers(-4, 4)))),
                                                                           gen.size_c(draw, 2, 20000) / 100]]}]})
    if spec["bsp_market"] and draw(st.booleans()):
        prices = world.ladder_prices(spec)
        steps.append({"dt": 500, "k": "inplay", "bet_delay": 1, "status": "OPEN", "bump": True,
                      "bsp": [round(prices[max(0, min(nt - 1, mids[r] + draw(st.integers(-5, 5))))] + draw(st.sampled_from([0, 0.013])), 3)
                              for r in range(nr)]})
        steps.append({"dt": 500, "k": "book", "rc": []})
    if kind == "LINE":
        lad = spec["ladder"]
        val = draw(st.sampled_from([0, lad["min"], lad["min"] + 3 * lad["interval"], lad["min"] + 3 * lad["interval"] + 0.5,
                                    world.ladder_prices(spec)[mids[0]], world.ladder_prices(spec)[mids[0]] - lad["interval"] / 2,
                                    lad["max"] + 1, None]))
        if val is not None:
            strategies[0]["script"].append({"m": 0, "at": 2, "ops": [{"op": "line_result", "value": val}]})
    steps.append({"dt": 500, "k": "suspend", "bump": True})
    active = [r for r in range(nr) if r not in removed]
    res = ["LOSER"] * nr
    nw = spec["number_of_winners"]
    if kind == "DEADHEAT":
        k = min(len(active), draw(st.integers(2, 5)))
    elif kind == "HANDICAP":
        k = draw(st.integers(1, max(1, len(active) - 1)))  # each line settles on its own
    elif kind in ("WIN", "EACH_WAY", "MATCH_ODDS", "LINE"):
        k = min(len(active), 1)
    else:
        k = min(len(active), nw)
    perm = draw(st.permutations(active))
    for r in perm[:k]:
        res[r] = "WINNER"
    if kind == "EACH_WAY":
        for r in perm[k:]:
            if draw(st.booleans()):
                res[r] = "PLACED"
    late_removal = kind in ("WIN", "PLACE", "MATCH_ODDS", "DEADHEAT") and draw(st.integers(0, 5)) == 0
    steps.append({"dt": 500, "k": "close", "results": res})
    # re-settlement: an amended result sent while the market is closed (another runner promoted: a dead heat), or the
    # market re-opened, traded further and closed again with the same result - the last closing book is what counts
    ext = draw(st.sampled_from(["none", "none", "none", "amend", "reopen"]))
    if late_removal and ext == "none":
        # a withdrawal that is first visible in the (only) closing definition: the bets on that runner still hold their
        # fills when the market settles (the simulation never saw a removal) - they are void, profit 0
        others = [r for r in active if res[r] != "WINNER"]
        if others:
            res = list(res)
            res[others[draw(st.integers(0, len(others) - 1))]] = "REMOVED"
            steps[-1]["results"] = res
    if ext == "amend" and kind in ("WIN", "DEADHEAT", "PLACE", "EACH_WAY", "MATCH_ODDS"):
        res2 = list(res)
        losers = [r for r in active if res2[r] != "WINNER"]
        if losers:
            res2[losers[draw(st.integers(0, len(losers) - 1))]] = "WINNER"
            steps.append({"dt": 1000, "k": "close", "results": res2})
    elif ext == "reopen":
        steps.append({"dt": 1000, "k": "reopen"})
        for _ in range(draw(st.integers(1, 3))):
            r = draw(st.integers(0, nr - 1))
            steps.append({"dt": 500, "k": "book", "rc": [{"r": r, "trd": [[max(0, min(nt - 1, mids[r] + draw(st.integers(-4, 4)))),
                                                                          gen.size_c(draw, 2, 20000) / 100]]}]})
        steps.append({"dt": 500, "k": "suspend", "bump": True})
        steps.append({"dt": 500, "k": "close", "results": res})
    spec["steps"] = steps
    clients = [{"min_bet_validation": False, "commission": draw(st.sampled_from([0, 0.02, 0.05, 0.1]))} for _ in range(n_clients)]
    return {"markets": [spec], "strategies": strategies, "clients": clients, "config": {}, "_kind": kind}


def check(sc):
    # evaluated inside the lab context: flumine.config.simulated is still set, so mirror orders behave as simulated
    with simlab.lab(sc, snapshots=False) as lb:
        lb.run()
        if lb.error is not None:
            raise crash_violation(lb.error, sc, "run-aborted")
        return _evaluate(sc, lb)


def _evaluate(sc, lb):
    spec = sc["markets"][0]
    final = lb.renderers[0].updates[-1]
    sel_ids = [(r["id"], r.get("hc", 0)) for r in spec["runners"]]
    is_line = spec["ladder"]["type"] == "LINE_RANGE"
    mtype = spec["market_type"]
    winners = sum(1 for s in final.runner_status if s == "WINNER")
    n_dh = winners if (winners > spec["number_of_winners"] and spec["market_type"] != "ASIAN_HANDICAP") else 1
    line_result = None
    for r in lb.op_log:  # what the strategy actually told the framework (not merely what was scripted)
        if r.op["op"] == "line_result" and r.result == "set":
            line_result = r.op["value"]
    classes = {"kind:" + sc.get("_kind", mtype)}
    nontrivial = False
    per_client = {}
    from flumine.order.trade import Trade
    from flumine.order.ordertype import LimitOrder, LimitOnCloseOrder, MarketOnCloseOrder

    for order in lb.all_orders():
        status = final.runner_status[sel_ids.index((order.selection_id, order.handicap))]
        fills = [(m[1], m[2]) for m in order.simulated.matched]
        sm = order.simulated.size_matched
        side = order.side
        profit = order.profit
        otype = order.order_type.ORDER_TYPE.name
        tie = False
        order_is_line = is_line and otype == "LIMIT"  # the market's ladder decides, not the order's own attribute
        try:
            exact = settlement.settle(side, fills, status, mtype, n_dh, spec.get("each_way_divisor"), line_result, order_is_line)
        except ValueError:
            tie = True
            exact = None
        if fills:
            if len({p for p, _ in fills}) > 1:
                nontrivial = True
                classes.add("multi-price-fills")
            if n_dh > 1 and status == "WINNER":
                nontrivial = True
                classes.add("dead-heat:%d" % n_dh)
            if mtype == "EACH_WAY" or order_is_line:
                nontrivial = True
            classes.add("result:" + status)
            classes.add("type:" + otype)
        if order.runner_status != status:
            raise Violation("runner-status-not-delivered", (status,), "order.runner_status=%s closing status %s" % (order.runner_status, status), sc)
        if not fills or status == "REMOVED":
            if profit != 0:
                raise Violation("profit-without-fills", (status,), "profit %s for fills %s status %s" % (profit, fills, status), sc)
        elif mtype == "EACH_WAY" and n_dh > 1:
            classes.add("each-way-dead-heat(outside)")
        elif tie:
            classes.add("line:result-equals-line")
        else:
            single = len({p for p, _ in fills}) == 1 and all(settlement.fr(p) * 100 % 1 == 0 for p, _ in fills)
            tol = 0.011 if single else 0.005 * sm * (1.5 if mtype == "EACH_WAY" else 1) + 0.011
            if abs(profit - float(exact)) > tol:
                kindf = "line" if order_is_line else mtype if mtype == "EACH_WAY" else ("dead-heat" if n_dh > 1 and status == "WINNER" else "plain")
                raise Violation("profit-differs-from-exchange-rules", (kindf, side, status, "single-price" if single else "multi-price"),
                                "order %s %s fills %s result %s (dead heat %d, ew %s, line result %s): profit %s, exchange rules give %s" % (
                                    otype, side, fills, status, n_dh, spec.get("each_way_divisor"), line_result, profit, float(exact)), sc)
        # ---- antisymmetry with a mirror order holding identical fills
        if fills:
            mirror = _mirror(order, Trade, LimitOrder, LimitOnCloseOrder, MarketOnCloseOrder)
            mp = mirror.profit
            if mp != -profit and not (mp == 0 and profit == 0):
                raise Violation("back-lay-not-opposite", ("line-tie" if tie else "line" if order_is_line else mtype, status),
                                "%s profit %s but mirror %s profit %s for identical fills %s (line result %s)" % (
                                    side, profit, mirror.side, mp, fills, line_result), sc)
        if sm > 0:
            pc = per_client.setdefault(order.client.username, [0, F(0), 0.0])
            pc[0] += 1
            pc[1] += F(str(profit))
    # ---- cleared summaries
    cleared = [e for e in lb.events if type(e).__name__ == "ClearedMarketsEvent"]
    n_closes = sum(1 for u in lb.renderers[0].updates if u.status == "CLOSED")
    if n_closes > 1:
        classes.add("re-settled")
        nontrivial = True
    if len(cleared) != len(lb.clients) * n_closes:
        raise Violation("cleared-market-count", (), "%d cleared-market summaries for %d clients and %d closing updates" % (len(cleared), len(lb.clients), n_closes), sc)
    for ci, (client, ev) in enumerate(zip(lb.clients, cleared[-len(lb.clients):])):  # the summaries of the last closing update
        cm = ev.event.orders[0]
        cnt, tot, _ = per_client.get(client.username, [0, F(0), 0.0])
        exp_profit = round(float(tot), 2)
        rate = sc["clients"][ci].get("commission", 0.05)  # the rate the client was CONFIGURED with (0 is a rate)
        exp_comm = round(max(exp_profit * rate, 0), 2)
        if cm.bet_count != cnt or abs(cm.profit - exp_profit) > 1e-9:
            raise Violation("cleared-summary", ("count" if cm.bet_count != cnt else "profit",),
                            "client %s: summary betCount=%s profit=%s, matched orders %d sum %s" % (client.username, cm.bet_count, cm.profit, cnt, exp_profit), sc)
        if abs(cm.commission - exp_comm) > 0.0051 or (cm.profit <= 0 and cm.commission != 0):
            raise Violation("cleared-commission", ("on-loss" if cm.profit <= 0 else "amount",),
                            "client %s: commission %s on profit %s at the configured rate %s" % (client.username, cm.commission, cm.profit, rate), sc)
        if cnt:
            classes.add("cleared-with-orders")
        if len(lb.clients) > 1:
            classes.add("two-clients")
        elif len(sc["strategies"]) > 1:
            classes.add("two-strategies-one-client")
    return nontrivial, classes


def _mirror(order, Trade, LimitOrder, LimitOnCloseOrder, MarketOnCloseOrder):
    t = Trade(order.market_id, order.selection_id, order.handicap, order.trade.strategy)
    ot = order.order_type
    name = ot.ORDER_TYPE.name
    if name == "LIMIT":
        not_ = LimitOrder(ot.price, ot.size, ot.persistence_type, price_ladder_definition=ot.price_ladder_definition,
                          line_range_info=ot.line_range_info)
    elif name == "LIMIT_ON_CLOSE":
        not_ = LimitOnCloseOrder(ot.liability, ot.price)
    else:
        not_ = MarketOnCloseOrder(ot.liability)
    m = t.create_order("LAY" if order.side == "BACK" else "BACK", not_)
    m.update_client(order.client)
    for frag in order.simulated.matched:
        m.simulated._update_matched(list(frag))
    for fld in ("runner_status", "market_type", "each_way_divisor", "number_of_dead_heat_winners", "line_range_result"):
        setattr(m, fld, getattr(order, fld))
    return m


def sub_runs(col, budget, seed, tier, shard, nshards):
    run_given(col, scenario(tier), check, budget, seed, tier, "runs")


def subchecks(tier):
    return [SubCheck("runs", sub_runs, 4000 if tier == "quick" else 150000)]


def replay(c, sub=None):
    check(c)
