"""C06 - Passive liquidity is never double counted; queue position is honoured."""
import itertools
from fractions import Fraction

from hypothesis import strategies as st

from .. import gen, simlab, world
from ..common import SubCheck, Violation, run_given, crash_violation

PROPERTY = "C06"
LEVEL = "exploration"
SHARDS = {"quick": 8, "thorough": 16}
RULE = (
    "Whole simulation runs on one runner (plus a decoy): 1-6 resting orders per strategy at equal/different prices "
    "and sides, 1-3 strategies, simulated_strategy_isolation on/off, simulation_available_prices False; queue at "
    "arrival from {0, small, larger than the order}; 1-15 traded-volume updates (several prices per update, "
    "through/at/behind prices, unchanged and re-sent ladders, even and odd cent increments). Oracle: independent "
    "cumulative traded ledger from the generated timeline; lone-order fill formula min(size, max(0, E_t - q0)); "
    "Hall condition over every subset of orders per update and isolation scope; each order <= its lone value; price "
    "priority. Non-trivial: >= 2 resting orders competing for one update's volume with demand > supply, or a lone "
    "order whose queue was partly consumed; distinct = distinct scenario JSON."
)
ASSUMPTIONS = [
    "an order takes effect at update j and is matched against the traded volume reported from update j on (volume of update j counts as traded after arrival, as C07 prescribes execution against the state before update j)",
    "fills are rounded to 2dp per traded price: exact comparison when all increments are even cents, otherwise 0.005 per chunk",
]


@st.composite
def scenario(draw, tier="quick"):
    spec = world.default_market(0, 2, bsp_market=False)
    nt = len(world.ladder_prices(spec))
    mid = draw(st.integers(20, 300))
    even = draw(st.booleans())
    n_strat = draw(st.sampled_from([1, 1, 1, 2, 3]))
    lone = n_strat == 1 and draw(st.booleans())
    # book: queue sizes at the ticks around the mid on both sides
    def lvl():
        return draw(st.sampled_from([0.5, 2.0, 2.0, 10.0, 37.5, 120.0]))
    atb = [[mid - 1 - i, lvl()] for i in range(4) if draw(st.integers(0, 3))]
    atl = [[mid + 1 + i, lvl()] for i in range(4) if draw(st.integers(0, 3))]
    steps = [{"dt": 1000, "k": "book", "rc": [{"r": 0, "atb": atb, "atl": atl}]}]
    # in-play-only listener (listener_kwargs inplay=True): the pre-play phase (with traded volume at the prices the
    # orders will use) is filtered out, the suspension at the off and everything in play is delivered
    inplay_only = draw(st.integers(0, 3)) == 0
    shift = 0
    if inplay_only:
        pre = [{"dt": 1000, "k": "book", "rc": [{"r": 0, "atb": atb, "atl": atl}]}]
        for _ in range(draw(st.integers(1, 4))):
            pre.append({"dt": 500, "k": "book", "rc": [{"r": 0, "trd": [[max(0, min(nt - 1, mid + draw(st.integers(-4, 4)))),
                                                                       (gen.size_c(draw, 2, 8000) // 2 * 2) / 100]]}]})
        pre += [{"dt": 1000, "k": "suspend"}, {"dt": 1000, "k": "inplay", "status": "OPEN", "bet_delay": 0}]
        steps = pre + steps
        shift = 1  # delivered updates: suspension (0), turn in-play (1), first in-play book (2) ...
    strategies = []
    for si in range(n_strat):
        ops = []
        n_orders = 1 if lone else draw(st.integers(1, 6 if tier == "quick" else 8))
        for _ in range(n_orders):
            side = draw(st.sampled_from(["BACK", "LAY"]))
            # resting: BACK above the best back price, LAY below the best lay price (incl. inside the spread)
            if side == "BACK":
                tick = mid + draw(st.integers(0, 4))
            else:
                tick = mid - draw(st.integers(0, 4))
            size = gen.size_c(draw, 1, 6000) / 100
            if even:
                size = round(size + (round(size * 100) % 2) / 100, 2)
            ops.append({"op": "place", "r": 0, "side": side, "type": "LIMIT", "tick": max(0, min(nt - 1, tick)),
                        "size": size, "pers": draw(st.sampled_from(["PERSIST", "PERSIST", "LAPSE", "MARKET_ON_CLOSE"]))})  # (a persistence type never changes how a resting order is matched)
        at2 = draw(st.integers(1, 3))
        k = draw(st.integers(0, len(ops)))
        script = [{"m": 0, "at": 1 + shift, "ops": ops[:k]}, {"m": 0, "at": at2 + shift, "ops": ops[k:]}]
        strategies.append(gen.strategy_spec("S%d" % si, script=[e for e in script if e["ops"]]))
    n_upd = draw(st.integers(1, 15 if tier == "quick" else 40))
    for _ in range(n_upd):
        rc = {"r": 0}
        c = draw(st.integers(0, 9))
        if c == 0:
            rc["trd_same"] = [mid + draw(st.integers(-3, 3))]
        elif c == 1:
            rc["atb"] = atb[: draw(st.integers(0, len(atb)))]
        elif c == 2 and steps[-1].get("k") == "book":
            # the market suspends (same version: resting orders survive), one or two SUSPENDED updates, re-opens:
            # nothing trades meanwhile, so nothing may be filled
            steps.append({"dt": draw(st.sampled_from([50, 1000])), "k": "suspend", "bump": False})
            for _ in range(draw(st.integers(0, 2))):
                steps.append({"dt": 200, "k": "book", "rc": []})
            steps.append({"dt": 1000, "k": "open", "bump": False})
            continue
        else:
            trd = []
            for _ in range(draw(st.integers(1, 3))):
                t = max(0, min(nt - 1, mid + draw(st.integers(-5, 5))))
                inc = gen.size_c(draw, 2, 8000)
                if even:
                    inc += inc % 2
                trd.append([t, inc / 100])
            rc["trd"] = trd
        steps.append({"dt": draw(st.sampled_from([50, 200, 1000])), "k": "book", "rc": [rc]})
    spec["steps"] = steps
    ri = 0
    if draw(st.integers(0, 4)) == 0:
        # handicap market: the same selection id on two lines; the orders are on the line listed SECOND, the first
        # line carries a different book (other queue sizes at the same prices) and no traded volume
        ri = 1
        spec["market_type"] = "ASIAN_HANDICAP"
        spec["number_of_winners"] = 0
        spec["runners"] = [{"id": 1001, "hc": -1.5, "af": None}, {"id": 1001, "hc": 1.5, "af": None}]
        for st_ in steps:
            for rc_ in st_.get("rc", ()):
                rc_["r"] = 1
        for s_ in strategies:
            for e_ in s_["script"]:
                for op_ in e_["ops"]:
                    op_["r"] = 1
        first_book = next(st_ for st_ in steps if st_.get("k") == "book" and st_.get("rc") and "atb" in st_["rc"][0])
        first_book["rc"].insert(0, {"r": 0, "atb": [[t, 777.0] for t, _ in atb[:2]] or [[max(0, mid - 1), 777.0]],
                                    "atl": [[mid + 1 + i, 0.01] for i in range(2)]})
    bsp_inplay = False
    if ri == 0 and not inplay_only and draw(st.integers(0, 4)) == 0:
        # starting-price market already in play with the starting price reconciled when the orders are placed
        bsp_inplay = True
        spec["bsp_market"] = True
        steps.insert(0, {"dt": 1000, "k": "inplay", "status": "OPEN", "bet_delay": 0, "bump": True,
                         "bsp": [world.ladder_prices(spec)[mid], 3.0]})
        for s_ in strategies:
            for e_ in s_["script"]:
                e_["at"] += 1
                for op_ in e_["ops"]:
                    if op_.get("pers") == "MARKET_ON_CLOSE":
                        op_["pers"] = "PERSIST"  # (would be converted to a starting-price bet at once: not a resting order)
    removal = False
    if ri == 0 and not inplay_only and not bsp_inplay and draw(st.integers(0, 5)) == 0:
        # another runner is withdrawn (reduction factor >= 2.5: the matched fragments are re-priced) while the orders
        # rest: the volume queued ahead of a resting order is still ahead of it afterwards
        removal = True
        spec["runners"].append({"id": 1003, "hc": 0, "af": 20.0})
        first_place = min(e_["at"] for s_ in strategies for e_ in s_["script"]) if any(s_["script"] for s_ in strategies) else 1
        pos = draw(st.integers(min(len(steps), first_place + 1), len(steps)))
        steps.insert(pos, {"dt": 1000, "k": "remove", "r": draw(st.sampled_from([1, 2])), "af": draw(st.sampled_from([2.5, 10, 40]))})
        # (the withdrawal is a new market version: when it falls into a suspension, orders with LAPSE persistence lapse
        #  there by rule - the resting orders of this variant keep PERSIST so that the queue clause stays the subject)
        for s_ in strategies:
            for e_ in s_["script"]:
                for op_ in e_["ops"]:
                    op_["pers"] = "PERSIST"
    return {"markets": [spec], "strategies": strategies, "clients": [{"min_bet_validation": False}], "_ri": ri, "_removal": removal,
            "subclassed_sim_middleware": draw(st.integers(0, 4)) == 0,
            "listener_kwargs": {"inplay": True} if inplay_only else {},
            "config": {"simulated_strategy_isolation": draw(st.integers(0, 2)) > 0, "simulation_available_prices": False}}


def eligible(side, limit, p):
    return p >= limit if side == "BACK" else p <= limit


def check(sc):
    lb = simlab.run_scenario(sc, snapshot_cbs=("process_market_book",))
    if lb.error is not None:
        raise crash_violation(lb.error, sc, "run-aborted")
    ups = lb.renderers[0].updates
    ri = sc.get("_ri", 0)  # index of the runner the orders are on
    if any(u.status != "OPEN" and any(u.traded_delta[ri].values()) for u in ups):
        # outside the generator's domain (reachable only by minimisation dropping the re-opening step): the
        # exchange does not report trades on a suspended market
        return False, {"not-judged:trades-while-suspended"}
    iso = sc["config"]["simulated_strategy_isolation"]
    pt2idx = {u.pt: u.idx for u in ups}
    epoch = __import__("datetime").datetime(1970, 1, 1)
    # order history: oid -> list of (update idx, snapshot)
    hist = {}
    info = {}
    per_update = {}
    for rec in lb.log:
        u = pt2idx[int(round((rec["pt"] - epoch).total_seconds() * 1000))]
        for o in rec["orders"]:
            # every strategy records the whole blotter; keep one snapshot per (order, update)
            hist.setdefault(o["oid"], {})[u] = o
            info[o["oid"]] = o
    classes = {"isolation-on" if iso else "isolation-off", "strategies:%d" % len(sc["strategies"])}
    if sc.get("listener_kwargs"):
        classes.add("inplay-only-listener")
    if ri:
        classes.add("handicap-line-listed-second")
    if sc.get("subclassed_sim_middleware"):
        classes.add("subclassed-simulated-middleware")
    if sc["markets"][0].get("bsp_market"):
        classes.add("in-play-after-bsp-reconciliation")
    if sc.get("_removal"):
        classes.add("another-runner-withdrawn-while-orders-rest")
    if any(u.status == "SUSPENDED" and u.idx > 1 for u in ups) and not sc.get("listener_kwargs"):
        classes.add("suspension-with-resting-orders")
    orders = []
    for oid, h in hist.items():
        us = sorted(h)
        ack = next((u for u in us if h[u]["status"] != "PENDING"), None)
        if ack is None:
            continue
        o = h[ack]
        if "EXECUTABLE" not in h[us[-1]]["status_log"] and not h[us[-1]]["matched"]:
            continue  # the placement was rejected (e.g. it reached the exchange while the market was suspended)
        # arrival (crossing) fragments are stamped with the previous update's time
        arrival = [m for m in o["matched"] if m[0] == ups[ack - 1].pt]
        arrival_sz = round(sum(m[2] for m in arrival), 2)
        qside = ups[ack - 1].books[ri]["atl" if o["side"] == "BACK" else "atb"]
        q0 = 0.0 if arrival else dict(qside).get(o["price"], 0.0)
        orders.append(dict(oid=oid, ack=ack, side=o["side"], limit=o["price"], size=o["size"], q0=q0,
                           arrival=arrival_sz, strategy=o["strategy"], h=h, us=us))
    if not orders:
        return False, classes | {"no-order-acknowledged"}
    chunks_tol = {}
    nontrivial = False
    # ---- per order: passive fill per update, lone-order upper bound / exact value
    for od in orders:
        E = Fraction(0)
        chunks = 0
        prev_passive = 0.0
        od["fill_at"] = {}
        for u in range(od["ack"], len(ups)):
            delta = ups[u].traded_delta[ri]
            el = {p: v for p, v in delta.items() if eligible(od["side"], od["limit"], p)}
            E += sum(Fraction(str(v)) for v in el.values()) / 2
            chunks += len(el)
            snap = od["h"].get(u)
            if snap is None:
                continue
            passive = round(sum(m[2] for m in snap["matched"] if m[0] != ups[od["ack"] - 1].pt), 2)
            for m in snap["matched"]:
                if m[0] != ups[od["ack"] - 1].pt and m[1] != od["limit"] and not sc.get("_removal"):  # (a removal re-prices fragments)
                    raise Violation("passive-fill-price", (od["side"],), "passive fragment %s for limit %s" % (m, od["limit"]), sc)
            od["fill_at"][u] = round(passive - prev_passive, 2)
            if passive < prev_passive - 1e-9:
                raise Violation("passive-fill-decreased", (), "cumulative passive fill %s -> %s" % (prev_passive, passive), sc)
            prev_passive = passive
            rest = round(od["size"] - od["arrival"], 2)
            lone_val = float(min(Fraction(str(rest)), max(Fraction(0), E - Fraction(str(od["q0"])))))
            tol = 0.005 * chunks + 1e-6
            if passive > lone_val + tol:
                raise Violation("filled-more-than-traded-behind-queue", (od["side"],),
                                "order %s %s@%s size %s queue-ahead %s: cumulative passive fill %s after update %d but eligible half-volume since arrival is %s (max fill %s)" % (
                                    od["side"], od["limit"], od["size"], od["size"], od["q0"], passive, u, float(E), lone_val), sc)
            od.setdefault("lone", {})[u] = (lone_val, tol, passive)
        if od["q0"] > 0 and E > 0:
            classes.add("queue-ahead")
            if E < Fraction(str(od["q0"])) + Fraction(str(od["size"])):
                classes.add("queue-partly-consumed")
    # ---- lone order exactness
    scope_orders = {}
    for od in orders:
        scope_orders.setdefault(od["strategy"] if iso else "*", []).append(od)
    for scope, ods in scope_orders.items():
        if len(ods) == 1:
            od = ods[0]
            # alone in its scope for the whole run: the fill is exactly the formula
            for u, (lone_val, tol, passive) in od.get("lone", {}).items():
                if abs(passive - lone_val) > tol:
                    raise Violation("lone-order-fill", (od["side"], "under" if passive < lone_val else "over"),
                                    "lone %s order %s@%s queue-ahead %s: passive fill %s after update %d, formula min(size, max(0, E - q0)) gives %s" % (
                                        od["side"], od["size"], od["limit"], od["q0"], passive, u, lone_val), sc)
            classes.add("lone-order")
            if od["q0"] > 0:
                nontrivial = nontrivial or "queue-partly-consumed" in classes or any(v[2] > 0 for v in od.get("lone", {}).values())
            else:
                nontrivial = nontrivial or any(v[2] > 0 for v in od.get("lone", {}).values())
        else:
            classes.add("competing-orders")
    # ---- Hall condition per update and scope
    for scope, ods in scope_orders.items():
        for u in range(1, len(ups)):
            live = [od for od in ods if od["ack"] <= u and u in od["fill_at"]]
            filled = [od for od in live if od["fill_at"][u] > 0]
            if not live:
                continue
            delta = ups[u].traded_delta[ri]
            demand = sum(min(od["size"], 1e9) for od in live)
            supply = sum(delta.values()) / 2
            if len(live) >= 2 and supply > 0 and demand > supply:
                nontrivial = True
                classes.add("demand>supply")
            if len(delta) > 1 and filled:
                classes.add("multi-price-update")
            cand = filled[:10]
            for r in range(1, len(cand) + 1):
                for S in itertools.combinations(cand, r):
                    tot = sum(od["fill_at"][u] for od in S)
                    el = sum(v for p, v in delta.items() if any(eligible(od["side"], od["limit"], p) for od in S)) / 2
                    if tot > el + 0.005 * len(S) * max(1, len(delta)) + 1e-6:
                        raise Violation("double-counted-volume", ("isolation-on" if iso else "isolation-off", "orders:%d" % len(S)),
                                        "update %d: orders %s filled %s in total but only %s eligible half-volume traded (%s)" % (
                                            u, [(od["side"], od["limit"]) for od in S], tot, el, delta), sc)
            # priority among same-side orders
            for a in live:
                for b in live:
                    if a is b or a["side"] != b["side"] or a["ack"] > u or b["ack"] > u:
                        continue
                    better = a["limit"] < b["limit"] if a["side"] == "BACK" else a["limit"] > b["limit"]
                    # 2dp rounding of the better order's fill can leave <= 0.01 per traded price behind
                    if better and b["fill_at"][u] > 0.01 * max(1, len(delta)) + 1e-9:
                        sa = a["h"][u]
                        if sa["sr"] > 1e-9 and sa["status"] in ("EXECUTABLE", "CANCELLING", "UPDATING", "REPLACING"):
                            raise Violation("price-priority", (a["side"],),
                                            "update %d: %s order at %s received %s while the better-priced order at %s still has %s remaining" % (
                                                u, b["side"], b["limit"], b["fill_at"][u], a["limit"], sa["sr"]), sc)
    return nontrivial, classes


def sub_runs(col, budget, seed, tier, shard, nshards):
    run_given(col, scenario(tier), check, budget, seed, tier, "runs")


def subchecks(tier):
    return [SubCheck("runs", sub_runs, 3000 if tier == "quick" else 120000)]


def replay(c, sub=None):
    check(c)
