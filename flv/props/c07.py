"""C07 - Simulated latency and bet delay: no look-ahead and no free speed."""
import copy
import datetime as dt
from fractions import Fraction

from hypothesis import strategies as st

from .. import gen, simlab, world
from ..common import SubCheck, Violation, run_given, crash_violation

PROPERTY = "C07"
LEVEL = "exploration"
SHARDS = {"quick": 8, "thorough": 16}
RULE = (
    "Whole simulation runs, single-market and event-grouped (2-3 markets of one event with interleaved publish "
    "times); update spacing 1 ms .. 10 min; place/cancel/update/replace latencies drawn from {0, 0.001, 0.12, 0.15, "
    "0.17, 0.28, 1.5, 10}; bet delay 0-12 s changing at turn in-play; all request kinds, several requests per "
    "callback; books change on every update. Oracle: independent latency timeline (first update of the same market "
    "strictly later than request + latency (+ bet delay at request time for place/replace)); arrival fills must be "
    "valid against the book before the effective update; metamorphic run without the follow-up request must give "
    "identical fills before the effective update. In event-grouped runs about two thirds of the scripted entries are "
    "issued from ANOTHER market's callback (between two updates of the target market): the latency clock then starts "
    "at the issuing update's time. Non-trivial: a request whose effective update is not the next "
    "update of its market or that has other markets' updates in between; distinct = distinct scenario JSON."
)
ASSUMPTIONS = [
    "when an update falls exactly latency(+delay) after the request, either that update or the next is accepted as the effective one (float representation of the configured latency)",
    "arrival fragments carry the publish time of the book they were matched against (the update before the effective one)",
]

LATS = [0, 0.001, 0.12, 0.15, 0.17, 0.28, 1.5, 10]
INFLIGHT = {"cancel": "CANCELLING", "update": "UPDATING", "replace": "REPLACING"}


@st.composite
def scenario(draw, tier="quick"):
    nm = draw(st.sampled_from([1, 1, 2, 3]))
    grouped = nm > 1 and draw(st.integers(0, 3)) > 0
    cfg = {"place_latency": draw(st.sampled_from(LATS)), "cancel_latency": draw(st.sampled_from(LATS)),
           "update_latency": draw(st.sampled_from(LATS)), "replace_latency": draw(st.sampled_from(LATS))}
    if draw(st.integers(0, 2)) == 0:
        cfg = {"place_latency": 0.12, "cancel_latency": 0.17, "update_latency": 0.15, "replace_latency": 0.28}
    if draw(st.integers(0, 2)) == 0:
        cfg["simulated_strategy_isolation"] = False  # the per-instance matching path
    if draw(st.integers(0, 3)) == 0:
        cfg["async_place_orders"] = True  # placements sent asynchronously: same latency and bet delay apply
    markets = []
    strategies_scripts = []
    for mi in range(nm):
        spec = world.default_market(mi, 2, event=0 if grouped else mi)
        spec["bet_delay"] = draw(st.sampled_from([0, 0, 1, 5]))
        spec["start_pt"] = world.BASE_PT + draw(st.sampled_from([0, 0, 7, 500, 60_000]))
        n = draw(st.integers(4, 12 if tier == "quick" else 40))
        feats = {"remove": 0, "suspend": 1, "inplay": 1, "books": 5, "trades": 2, "close": draw(st.booleans()),
                 "max_dt_ms": draw(st.sampled_from([200, 2000, 600_000]))}
        steps, states = draw(gen.timeline(spec, n, feats))
        # the first update always carries a book so that orders can be priced
        spec["steps"] = steps
        markets.append(spec)
        strategies_scripts += draw(gen.script(spec, states, mi=mi, max_entries=5, max_ops=3,
                                              place_kw=dict(kinds=("LIMIT",), fok=False, sp=False, mv=False, sizes="level"),
                                              follow_weight=2))
    if grouped:
        # some scripted entries are issued from ANOTHER market's callback (a strategy trading the whole event):
        # the source update lies strictly between the target market's update `at` and its next one
        pts = [[u.pt for u in world.render(m).updates] for m in markets]
        closing = [[u.status == "CLOSED" for u in world.render(m).updates] for m in markets]
        for n_, ent in enumerate(strategies_scripts):
            tm, k = ent["m"], ent["at"]
            if k >= len(pts[tm]) or draw(st.integers(0, 2)) == 0:
                continue
            lo = pts[tm][k]
            hi = pts[tm][k + 1] if k + 1 < len(pts[tm]) else None
            cands = [(a, i) for a in range(nm) if a != tm for i, p in enumerate(pts[a])
                     if p > lo and (hi is None or p < hi) and not closing[a][i]]
            if cands:
                a, i = cands[draw(st.integers(0, len(cands) - 1))]
                strategies_scripts[n_] = {"m": a, "at": i, "ops": [{"op": "on", "tm": tm, "ops": ent["ops"]}]}
    sc = {
        "markets": markets,
        "event_processing": grouped,
        "strategies": [gen.strategy_spec("A", script=strategies_scripts)],
        "clients": [{"min_bet_validation": False}],
        "config": cfg,
    }
    return sc


def _ms(x):
    return int(round((x - dt.datetime(1970, 1, 1)).total_seconds() * 1000))


def predicted(updates, k, delay_ms, t0=None, exact=False):
    """first j > k with pt_j - t0 > delay (t0 = request time, by default the time of update k); returns
    (j, ambiguous_j) where ambiguous_j is an update falling exactly on the boundary: with a bet delay the
    configured delay is a float sum (0.17 + 3 != 3.17), so either side of the boundary is accepted there; without
    one (`exact`) the delay is the configured latency itself and an update exactly that much later is NOT 'more
    than the latency' after the request"""
    tk = updates[k].pt if t0 is None else t0
    amb = None
    for j in range(k + 1, len(updates)):
        d = updates[j].pt - tk
        if d == delay_ms:
            if not exact:
                amb = j
            continue
        if d > delay_ms:
            return j, amb
    return None, amb


def check(sc, metamorphic=True):
    lb = simlab.run_scenario(sc)
    if lb.error is not None:
        raise crash_violation(lb.error, sc, "run-aborted")
    cfg = sc["config"]
    lat = {"place": cfg["place_latency"], "cancel": cfg["cancel_latency"], "update": cfg["update_latency"],
           "replace": cfg["replace_latency"]}
    classes = set()
    if cfg.get("simulated_strategy_isolation") is False:
        classes.add("isolation-off")
    if cfg.get("async_place_orders"):
        classes.add("async-placement")
    nt = False
    ups = [r.updates for r in lb.renderers]
    mid = [m["id"] for m in sc["markets"]]
    pt2idx = [{u.pt: u.idx for u in us} for us in ups]
    # ---- clock: every callback sees utcnow == publish time of the update being processed
    per_market = {m: [] for m in mid}
    for rec in lb.log:
        if rec["now"] != rec["pt"]:
            raise Violation("clock-not-publish-time", (rec["cb"],), "utcnow()=%s but update publish time %s" % (rec["now"], rec["pt"]), sc)
        mi = mid.index(rec["market"])
        rec["uidx"] = pt2idx[mi].get(_ms(rec["pt"]))
        per_market[rec["market"]].append(rec)
    # global chronological order of callbacks
    last = None
    for rec in lb.log:
        if last is not None and rec["now"] < last and sc.get("event_processing"):
            raise Violation("time-went-backwards", (), "%s after %s within an event group" % (rec["now"], last), sc)
        last = rec["now"]
    # ---- per request
    seen_after = {}
    for res in lb.op_log:
        if res.error or res.result is not True:
            continue
        kind = res.op["op"]
        if kind not in lat:
            continue
        mi = res.m
        us = ups[mi]
        k = res.idx
        cross = bool(getattr(res, "cross", False))
        if cross:
            # issued while another market's update was processed: the clock starts at that update's time; the
            # target market's current book (its bet delay) is its latest update k
            tk = _ms(res.now)
            if k < 0 or not (us[k].pt < tk and (k + 1 >= len(us) or tk < us[k + 1].pt)):
                continue  # not the shape the generator builds (e.g. after minimisation): not judged
            nt = True
            classes.add("cross-market-request:" + kind)
        else:
            tk = us[k].pt
            if _ms(res.now) != tk:
                raise Violation("request-clock", (), "request time %s != update time %s" % (res.now, tk), sc)
        delay_ms = Fraction(str(lat[kind])) * 1000
        if kind in ("place", "replace"):
            delay_ms += us[k].bet_delay * 1000
        j, amb = predicted(us, k, delay_ms, tk, exact=not (kind in ("place", "replace") and us[k].bet_delay))
        if any(u_.pt - tk == delay_ms for u_ in us[k + 1:]):
            classes.add("update-exactly-on-the-boundary" + ("" if amb is None else ":either-side-accepted"))
        order = res.order if kind == "place" else res.target
        oid = id(order)
        if j is not None and j != k + 1:
            nt = True
            classes.add("effective-not-next:" + kind)
        if len(sc["markets"]) > 1 and sc.get("event_processing"):
            classes.add("event-grouped")
        if kind in ("place", "replace") and any(u.bet_delay != us[k].bet_delay for u in us[k: (j or len(us))]):
            classes.add("delay-changed-in-between")
        classes.add("kind:" + kind)
        acked_at = None
        for rec in per_market[mid[mi]]:
            u = rec["uidx"]
            if u is None or u < k:
                continue
            snap = next((o for o in rec["orders"] if o["oid"] == oid), None)
            if snap is None:
                continue
            if u == k and (cross or rec["cb"] != "process_market_book"):
                continue  # callbacks of update k that ran before the request was made
            if u > k and kind != "place" and seen_after.get(id(res)):
                # only the first callback at/after the effective update judges a follow-up request: later
                # callbacks may already carry the strategy's next request on the same order
                if seen_after[id(res)] == "late-done":
                    continue
            early = (j is None or u < j) and not (amb is not None and u >= amb)
            late = j is not None and u >= j
            if kind == "place":
                if early and (snap["status"] != "PENDING" or snap["matched"] or snap["bet_id"] or snap["placed"]):
                    raise Violation("took-effect-early", (kind,), "order placed at update %d (t=%d) is %s bet_id=%s placed=%s fills=%s at update %d (t=%d); latency %s + delay %s => effective update %s" % (
                        k, tk, snap["status"], snap["bet_id"], snap["placed"], snap["matched"], u, us[u].pt, lat[kind], us[k].bet_delay, j), sc)
                if late and snap["status"] == "PENDING":
                    raise Violation("took-effect-late", (kind,), "order placed at update %d still PENDING at update %d; effective update %s (latency %s, delay %s)" % (
                        k, u, j, lat[kind], us[k].bet_delay), sc)
                if snap["status"] != "PENDING" and acked_at is None:
                    acked_at = u
                    if _ms(snap["placed"]) != us[u].pt:
                        raise Violation("placed-date", (), "date_time_placed %s != time of the effective update %s" % (snap["placed"], us[u].pt), sc)
                    # arrival fills against the book before the effective update
                    book = us[u - 1].books[[r["id"] for r in sc["markets"][mi]["runners"]].index(snap["sel"])]
                    side_book = dict(book["atb"] if snap["side"] == "BACK" else book["atl"])
                    taken = {}
                    limit = snap["price"]
                    for ptm, p, s in snap["matched"]:
                        if ptm == us[u].pt and (p == limit or us[u].bsp_reconciled):
                            continue  # passive fill out of the effective update's own traded volume / SP conversion at it
                        taken[p] = round(taken.get(p, 0) + s, 2)
                        if ptm != us[u - 1].pt:
                            raise Violation("arrival-fragment-time", (), "arrival fragment stamped %s, matched book time %s" % (ptm, us[u - 1].pt), sc)
                    for p, s in taken.items():
                        if p not in side_book or s > side_book[p] + 1e-9:
                            raise Violation("look-ahead", (snap["side"],), "arrival fill %s@%s is not available in the book before the effective update (%s); book at the effective update: %s" % (
                                s, p, sorted(side_book.items()), us[u].books[0]), sc)
                    if snap["matched"]:
                        classes.add("arrival-fill")
            else:
                st_ = snap["status"]
                if early and st_ != INFLIGHT[kind] and not snap["complete"]:
                    raise Violation("took-effect-early", (kind,), "%s requested at update %d: status %s at update %d, effective update %s" % (kind, k, st_, u, j), sc)
                if late and st_ == INFLIGHT[kind]:
                    raise Violation("took-effect-late", (kind,), "%s requested at update %d still %s at update %d; effective update %s (latency %s)" % (
                        kind, k, st_, u, j, lat[kind]), sc)
                if late:
                    seen_after[id(res)] = "late-done"
                else:
                    seen_after[id(res)] = "early"
            # timestamps never precede what could have happened
            now_ms = us[u].pt
            for ptm, p, s in snap["matched"]:
                if ptm > now_ms:
                    raise Violation("fragment-from-the-future", (), "fragment time %s > now %s" % (ptm, now_ms), sc)
            for fld in ("created", "placed", "completed_at", "status_update"):
                v = snap[fld]
                if v is not None and _ms(v) > now_ms:
                    raise Violation("timestamp-from-the-future", (fld,), "%s=%s > now %s" % (fld, v, now_ms), sc)
            if kind == "place":
                if _ms(snap["created"]) != tk:
                    raise Violation("created-date", (), "date_time_created %s != request time %s" % (snap["created"], tk), sc)
                for ptm, p, s in snap["matched"]:
                    # fragments carry the publish time of the book they were matched against: never a book older
                    # than the one current at request time (for a cross-market request that is update k, published
                    # before the request)
                    if ptm < us[k].pt:
                        raise Violation("fragment-before-request", (), "fragment time %s < time %s of the book current at request time" % (ptm, us[k].pt), sc)
    # ---- metamorphic: an in-flight cancel/update/replace leaves the order fillable as before
    if metamorphic:
        follow = [r for r in lb.op_log if r.op["op"] in INFLIGHT and r.result is True and not r.error]
        if follow:
            res = follow[0]
            kind = res.op["op"]
            us = ups[res.m]
            if getattr(res, "cross", False):
                return nt, classes
            delay_ms = Fraction(str(lat[kind])) * 1000 + (us[res.idx].bet_delay * 1000 if kind == "replace" else 0)
            j, amb = predicted(us, res.idx, delay_ms)
            if amb is not None:
                j = amb
            sc2 = copy.deepcopy(sc)
            # drop that op and everything scripted after it (order refs stay aligned before it)
            removed = False
            for s in sc2["strategies"]:
                new = []
                for ent in s["script"]:
                    if removed:
                        continue
                    if ent["m"] == res.m and ent["at"] == res.idx:
                        ops = []
                        for op in ent["ops"]:
                            if op == res.op and not removed:
                                removed = True
                                break
                            ops.append(op)
                        ent = dict(ent, ops=ops)
                    elif (ent["m"], ent["at"]) > (res.m, res.idx) and len(sc["markets"]) == 1 and ent["at"] > res.idx:
                        pass
                    new.append(ent)
                s["script"] = [e for e in new if e["ops"]]
            if removed and len(sc["markets"]) == 1:
                # cut scripted entries after the removed op
                for s in sc2["strategies"]:
                    s["script"] = [e for e in s["script"] if e["at"] <= res.idx]
                for s in sc["strategies"]:
                    pass
                lb2 = simlab.run_scenario(sc2)
                if lb2.error is None:
                    tgt = res.target
                    # position of the target among the strategy's orders
                    pos = lb.strategies[0].my_orders.index(tgt)
                    if pos < len(lb2.strategies[0].my_orders):
                        tgt2 = id(lb2.strategies[0].my_orders[pos])
                        f1 = _fills_before(lb, id(tgt), us, j)
                        f2 = _fills_before(lb2, tgt2, us, j)
                        # further scripted requests only matter if they are made before the effective update
                        j_lim = j if j is not None else 10**9
                        later_ops = any(res.idx < e["at"] < j_lim or (e["at"] == res.idx and e["ops"][-1] != res.op) for e in sc["strategies"][0]["script"])
                        if f1 != f2 and not later_ops:
                            facts = (kind,)
                            if kind == "update" and _pers_switched_early(lb, id(tgt), res, us, j):
                                # (recorded as a known finding) BetfairOrder.update switches the order's persistence
                                # type when the request is MADE; the simulation then lapses / keeps / converts the
                                # order to SP by the new type although the update has not reached the exchange yet
                                facts = (kind, "local-persistence-switched-at-request-time")
                            raise Violation("in-flight-order-not-fillable-as-before", facts, "fills before the effective update %s differ: with request %s, without %s" % (j, f1, f2), sc)
                        classes.add("metamorphic-compared")
    return nt, classes


def _pers_switched_early(lb, oid, res, us, j):
    """True when a callback before the effective update already shows the requested persistence on the order"""
    want = res.op.get("pers", "PERSIST")
    for rec in lb.log:
        ms = _ms(rec["pt"])
        if ms < us[res.idx].pt:
            continue
        if j is not None and ms >= us[j].pt:
            break
        for o in rec["orders"]:
            if o["oid"] == oid and o.get("pers") == want:
                return True
    return False


def _fills_before(lb, oid, us, j):
    out = None
    for rec in lb.log:
        ms = _ms(rec["pt"])
        if j is not None and ms >= us[j].pt:
            break
        for o in rec["orders"]:
            if o["oid"] == oid:
                out = [list(m) for m in o["matched"]]
    return out


@st.composite
def inflight_scenario(draw, tier="quick"):
    """focused on the clause 'an order being cancelled, updated or replaced remains fillable as before': one
    resting order, trades at / through its price a few tens of ms apart, follow-up requests in between (the C04
    resting generator), default or drawn latencies, both matching paths (strategy isolation on / off)"""
    from . import c04

    sc = draw(c04.resting_scenario(tier))
    cfg = {"place_latency": 0.12, "cancel_latency": 0.17, "update_latency": 0.15, "replace_latency": 0.28}
    if draw(st.integers(0, 2)) == 0:
        cfg = {k: draw(st.sampled_from([0.12, 0.17, 0.28, 1.5])) for k in cfg}
    if draw(st.booleans()):
        cfg["simulated_strategy_isolation"] = False
    # (runner removals void pending orders - C09's subject - and are replaced by empty updates here)
    for st_ in sc["markets"][0]["steps"]:
        if st_["k"] == "remove":
            dt_ = st_["dt"]
            st_.clear()
            st_.update({"dt": dt_, "k": "book", "rc": []})
    sc["config"] = cfg
    sc["event_processing"] = False
    sc["clients"] = [{"min_bet_validation": False}]
    return sc


def sub_runs(col, budget, seed, tier, shard, nshards):
    run_given(col, scenario(tier), check, budget, seed, tier, "runs")


def sub_inflight(col, budget, seed, tier, shard, nshards):
    run_given(col, inflight_scenario(tier), check, budget, seed, tier, "inflight")


# ---- several markets in ONE recording: all time seen by strategies is the publish time of the book being processed ----


@st.composite
def combined_case(draw, tier="quick"):
    """2-3 markets in one recording (an event-level file) whose updates do not fall on a common grid: the data layer
    then hands the framework events with several books, each carrying the publish time of its own last update (a
    market that did not change is re-emitted with its old book).  No closures (a closed book would be re-emitted with
    every later message) and no orders: only the clock clause is judged."""
    nm = draw(st.integers(2, 3))
    markets = []
    for mi in range(nm):
        spec = world.default_market(mi, 2, event=0)
        spec["start_pt"] = world.BASE_PT + draw(st.sampled_from([0, 7, 500, 1300]))
        n = draw(st.integers(2, 8 if tier == "quick" else 20))
        feats = {"remove": 0, "suspend": 1, "inplay": 1, "books": 5, "trades": 2, "close": False, "max_dt_ms": draw(st.sampled_from([200, 2000]))}
        steps, states = draw(gen.timeline(spec, n, feats))
        spec["steps"] = steps
        markets.append(spec)
    return {"combined": True, "combined_file": True, "markets": markets, "event_processing": False,
            "strategies": [gen.strategy_spec("A", script=[])], "clients": [{"min_bet_validation": False}], "config": {}}


def check_combined(sc):
    if len(sc.get("markets", ())) < 2 or any(s_.get("k") == "close" for m in sc["markets"] for s_ in m.get("steps", ())):
        return False, {"minimised-away"}
    lb = simlab.run_scenario(sc, snapshot_cbs=("check_market_book", "process_market_book"))
    if lb.error is not None:
        raise crash_violation(lb.error, sc, "run-aborted")
    stale = 0
    last_pt = {}
    for rec in lb.log:
        if rec["cb"] not in ("check_market_book", "process_market_book") or rec["pt"] is None:
            continue
        if _ms(rec["now"]) != _ms(rec["pt"]):
            raise Violation("clock-not-publish-time", ("several-markets-in-one-recording", rec["cb"]),
                            "market %s: %s saw utcnow() %s while processing the book published %s" % (rec["market"], rec["cb"], rec["now"], rec["pt"]), sc)
        if rec["cb"] == "check_market_book":
            if last_pt.get(rec["market"]) == rec["pt"]:
                stale += 1
            last_pt[rec["market"]] = rec["pt"]
    return stale > 0, {"several-markets-in-one-recording", "unchanged-book-re-emitted" if stale else "every-book-fresh"}


def sub_combined(col, budget, seed, tier, shard, nshards):
    run_given(col, combined_case(tier), check_combined, budget, seed, tier, "combined")


def subchecks(tier):
    return [SubCheck("runs", sub_runs, 3000 if tier == "quick" else 100000),
            SubCheck("inflight", sub_inflight, 1500 if tier == "quick" else 40000),
            SubCheck("combined", sub_combined, 400 if tier == "quick" else 10000)]


def replay(c, sub=None):
    if c.get("combined"):
        check_combined(c)
        return
    check(c)
