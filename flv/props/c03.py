"""C03 - Order lifecycle: one operation in flight, legal transitions, finality."""
from hypothesis import strategies as st

from ..common import SubCheck, Violation, run_given
from ..machine import SimWorld, replay_trace
from . import _machines as M

PROPERTY = "C03"
LEVEL = "exploration"
SHARDS = {"quick": 8, "thorough": 16}
RULE = (
    "Rule-based state machine over a real stepped FlumineSimulation (one stream message per step): rules = strategy "
    "requests on any existing order in any status (cancel with any reduction incl. > remainder, update to same / "
    "different persistence, replace to same / different price, on LIMIT / LIMIT_ON_CLOSE / MARKET_ON_CLOSE, forced or "
    "not, re-placing an already placed order) interleaved with market updates (fills, suspension lapse, re-open, turn "
    "in-play with BSP, runner removal, close) so that simulated responses arrive after arbitrary intervening events. "
    "Every BaseOrder._update_status call is recorded (wrapped inside the checker process) and fed to the documented "
    "lifecycle automaton; request guards, at-most-one undelivered package per order and finality are checked after "
    "every step. A second sub-check drives BetfairOrder / BetdaqOrder objects directly through generated call "
    "sequences. Non-trivial: an order completed while a request on it was in flight, or a request made while "
    "another was in flight; distinct = distinct trace JSON."
)
ASSUMPTIONS = [
    "finality is judged at step boundaries (handler granularity): a status that is set and overwritten inside one response handler is not an observation",
    "matched size may change after completion only through the void that C04/C09 prescribe on a runner removal",
    "live world: the C11 schedule generator on the live double with lifecycle invariants after every operation; 'matched size no longer changes' is judged against the exchange (a locally complete order whose bet still rests executable can still be matched)",
]
CHECKS = ("lifecycle",)


def sub_machine(col, budget, seed, tier, shard, nshards):
    M.run(col, SimWorld, CHECKS, M.base_cfg(limits="some", custom_control=True), budget, 30 if tier == "quick" else 60, seed, tier, "sim-machine",
          rule_weights={"txn": 2, "replace_through": 1})  # batched requests incl. a flush (execute) in the middle of a transaction


# ---- direct object-level sequences for both order classes -----------------------------------------


@st.composite
def obj_case(draw):
    cls = draw(st.sampled_from(["betfair", "betfair", "betdaq"]))
    typ = draw(st.sampled_from(["LIMIT", "LIMIT", "LOC", "MOC"])) if cls == "betfair" else "LIMIT"
    calls = draw(st.lists(st.sampled_from(["place", "bet_id", "executable", "cancel", "cancel_red", "cancel_big", "update_same", "update_diff",
                                           "replace_same", "replace_diff", "execution_complete", "executable"]), min_size=1, max_size=10))
    return {"cls": cls, "type": typ, "calls": calls}


def check_obj(c):
    from flumine import BaseStrategy
    from flumine.order.trade import Trade
    from flumine.order.ordertype import LimitOrder, LimitOnCloseOrder, MarketOnCloseOrder, BetdaqLimitOrder
    from flumine.exceptions import OrderUpdateError
    from .. import simlab

    with simlab.clean_config({"simulated": False}):
        t = Trade("1.1", 1, 0, BaseStrategy(market_filter={}, name="o"))
        if c["cls"] == "betdaq":
            o = t.create_betdaq_order("BACK", BetdaqLimitOrder(2.0, 10.0, 1, 0, 0))
        elif c["type"] == "LIMIT":
            o = t.create_order("BACK", LimitOrder(2.0, 10.0))
        elif c["type"] == "LOC":
            o = t.create_order("BACK", LimitOnCloseOrder(10.0, 2.0))
        else:
            o = t.create_order("BACK", MarketOnCloseOrder(10.0))
        for call in c["calls"]:
            st_ = o.status.name if o.status else None
            before = (st_, tuple(x.name for x in o.status_log), dict(o.update_data), getattr(o.order_type, "persistence_type", None))
            ok_state = o.bet_id is not None and st_ == "EXECUTABLE"
            err = None
            try:
                if call == "place":
                    if st_ is None:
                        o.place(1, None, False)
                    continue
                elif call == "bet_id":
                    o.bet_id = "123"
                    continue
                elif call in ("executable", "execution_complete"):
                    if st_ is not None:
                        getattr(o, call)()
                    continue
                elif call.startswith("cancel"):
                    kind = "cancel"
                    red = {"cancel": None, "cancel_red": 4.0, "cancel_big": 11.0}[call]
                    if c["cls"] == "betdaq":
                        exp = ok_state and not red
                    else:
                        exp = ok_state and c["type"] == "LIMIT" and not (red and 10.0 - red < 0)
                    o.cancel(red) if red else o.cancel()
                elif call.startswith("update"):
                    kind = "update"
                    if c["cls"] == "betdaq":
                        exp = ok_state
                        o.update(size_delta=1.0)
                    else:
                        new = "LAPSE" if call == "update_same" else "PERSIST"
                        exp = ok_state and c["type"] == "LIMIT" and o.order_type.persistence_type != new
                        o.update(new)
                else:
                    kind = "replace"
                    if c["cls"] == "betdaq":
                        continue
                    new = 2.0 if call == "replace_same" else 2.5
                    exp = ok_state and c["type"] in ("LIMIT", "LOC") and o.order_type.price != new
                    o.replace(new)
            except OrderUpdateError as e:
                err = e
            accepted = err is None
            if accepted != exp:
                raise Violation("order-guard", (c["cls"], kind, str(st_), "accepted" if accepted else "rejected"),
                                "%s.%s in status %s bet_id %s type %s: %s, documented guard says %s" % (
                                    c["cls"], call, st_, o.bet_id, c["type"], "accepted" if accepted else "rejected (%s)" % err, exp), c)
            after = (o.status.name if o.status else None, tuple(x.name for x in o.status_log), dict(o.update_data), getattr(o.order_type, "persistence_type", None))
            if not accepted and after != before:
                raise Violation("rejected-request-side-effect", (c["cls"], kind, str(st_)), "rejected %s changed %s -> %s" % (call, before, after), c)
            if accepted and o.status.name not in ("CANCELLING", "UPDATING", "REPLACING"):
                raise Violation("accepted-request-status", (c["cls"], kind), "status %s after accepted %s" % (o.status.name, call), c)
    return True, ("obj:" + c["cls"],)


def sub_objects(col, budget, seed, tier, shard, nshards):
    run_given(col, obj_case(), check_obj, budget, seed, tier, "order-objects")


# ---- live world: lifecycle over generated schedules on the live double (C11 schedule generator) -------------

LEGAL = {
    None: {"PENDING", "VIOLATION"},
    "PENDING": {"EXECUTABLE", "EXECUTION_COMPLETE"},
    "EXECUTABLE": {"CANCELLING", "UPDATING", "REPLACING", "EXECUTION_COMPLETE"},
    "CANCELLING": {"EXECUTABLE", "EXECUTION_COMPLETE"},
    "UPDATING": {"EXECUTABLE", "EXECUTION_COMPLETE"},
    "REPLACING": {"EXECUTABLE", "EXECUTION_COMPLETE"},
}


def check_live(c):
    from flumine.order import order as order_mod
    from . import c11

    transitions = []
    orig = order_mod.BaseOrder._update_status

    def rec(order, status, _orig=orig):
        prev = order.status
        _orig(order, status)
        transitions.append((order, prev.name if prev else None, status.name))

    seen_complete = {}

    def after_op(d, op):
        for (o, prev, new) in transitions:
            if prev != new and new not in LEGAL.get(prev, set()):
                raise Violation("illegal-transition", (str(prev), new, "live"), "order status went %s -> %s after %s" % (prev, new, op["op"]), c)
        transitions.clear()
        for before, bet_id, async_ in d.accepted_during_flight:
            if not async_:
                raise Violation("two-operations-in-flight", ("live", "request-accepted-while-call-in-flight", str(before)),
                                "a cancel was accepted on an order (%s, bet %s) whose own API call had not returned yet" % (before, bet_id), c)
        if d.accepted_during_flight:
            d.classes.add("async-order-request-during-placement-call")
        d.accepted_during_flight.clear()
        m = d.lab.market(0)
        if m is None:
            return
        for o in m.blotter:
            n = sum(1 for (fn, args) in d.lab.pool.queue for x in args[0]._orders if x is o)
            if n > 1:
                raise Violation("two-operations-in-flight", ("live",), "order is in %d queued packages" % n, c)
            st_ = o.status.name if o.status else None
            # (keyed by id but holding the object: ids are recycled once a restarted instance drops its orders)
            if id(o) in seen_complete and seen_complete[id(o)][0] is o and st_ in ("PENDING", "EXECUTABLE", "CANCELLING", "UPDATING", "REPLACING"):
                raise Violation("completed-order-live-again", (seen_complete[id(o)][1], st_, "live"), "order observed complete is now %s" % st_, c)
            if o.complete and "PENDING" in [x.name for x in o.status_log]:
                if id(o) not in seen_complete or seen_complete[id(o)][0] is not o:
                    seen_complete[id(o)] = (o, st_)
                b = d.exchange.bets.get(str(o.bet_id)) if o.bet_id else None
                if b is not None and b.status == "EXECUTABLE":
                    cr = o.responses.cancel_responses
                    cause = "other"
                    if cr and cr[-1].status == "SUCCESS" and cr[-1].instruction.size_reduction:
                        last = [h for h in b.hist if h[0] == "partial-cancel"][-1:]
                        cause = "partial-cancel-equal-to-remainder-after-stream-update" if last and abs(last[0][1] - last[0][2]) < 1e-9 else "partial-cancel-other"
                    raise Violation("reported-complete-while-resting-at-exchange", (cause,),
                                    "order %s reported %s after %s but bet %s still rests executable at the exchange (%s): its matched size can still change" % (
                                        o.id, st_, op["op"], b.bet_id, b.view()), c)
        d.classes.add("live-lifecycle-checked")

    order_mod.BaseOrder._update_status = rec
    try:
        return c11.check(c, after_op=after_op, convergence=False)
    finally:
        order_mod.BaseOrder._update_status = orig


def sub_live(col, budget, seed, tier, shard, nshards):
    from . import c11

    run_given(col, c11.schedule(tier), check_live, budget, seed, tier, "live")


def sub_betdaq_stream(col, budget, seed, tier, shard, nshards):
    from .. import betdaqstream
    from ..common import run_given as _rg

    _rg(col, betdaqstream.case(), betdaqstream.check, budget, seed, tier, "betdaq_stream")


def subchecks(tier):
    q = tier == "quick"
    return [SubCheck("sim-machine", sub_machine, 1600 if q else 40000), SubCheck("order-objects", sub_objects, 2000 if q else 50000),
            SubCheck("live", sub_live, 5000 if q else 200000), SubCheck("betdaq_stream", sub_betdaq_stream, 1500 if q else 60000)]


def replay(case, sub=None):
    if isinstance(case, list):
        replay_trace(SimWorld, CHECKS, case)
    elif isinstance(case, dict) and case.get("betdaq"):
        from .. import betdaqstream

        betdaqstream.check(case)
    elif "ops" in case:
        check_live(case)
    else:
        check_obj(case)
