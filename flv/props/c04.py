"""C04 - Simulated order sizes are conserved."""
from hypothesis import strategies as st

from .. import gen, simlab, world
from ..common import SubCheck, Violation, run_given, crash_violation

PROPERTY = "C04"
LEVEL = "exploration"
SHARDS = {"quick": 8, "thorough": 16}
RULE = (
    "Whole simulation runs (real FlumineSimulation.run over generated stream files): timelines with book/trade "
    "updates, suspend/re-open with version change, turn in-play with BSP reconciliation, runner removal, closure; "
    "scripts of place / partial+full cancel (incl. reductions > remainder) / replace / update with arbitrary timing; "
    "LIMIT flavours (plain, FOK with every min-fill class, LAPSE/PERSIST/MARKET_ON_CLOSE), failed placements, "
    "best_price_execution on/off, simulated_full_match on/off. Checked at every strategy callback for every LIMIT "
    "order that was sent. Non-trivial: a run in which at least one order had >= 2 different size buckets move; "
    "distinct = distinct scenario JSON."
)
ASSUMPTIONS = [
    "closing updates are preceded by a suspension (as on the exchange); an OPEN->CLOSED jump is not generated",
    "market-on-close persistence LAY orders after BSP reconciliation: only the total is checked (exception stated by the property)",
]

TOL = 0.0051


@st.composite
def scenario(draw, tier="quick"):
    nr = draw(st.integers(2, 3))
    spec = world.default_market(0, nr)
    spec["market_type"] = draw(st.sampled_from(["WIN", "WIN", "PLACE", "OTHER_PLACE", "EACH_WAY", "MATCH_ODDS"]))
    if spec["market_type"] == "EACH_WAY":
        spec["each_way_divisor"] = 4
    spec["bsp_market"] = draw(st.integers(0, 3)) > 0
    spec["persistence_enabled"] = draw(st.integers(0, 5)) > 0
    n = draw(st.integers(3, 12 if tier == "quick" else 30))
    steps, states = draw(gen.timeline(spec, n))
    spec["steps"] = steps
    strategies = []
    for name in ("A", "B")[: draw(st.integers(1, 2))]:
        sc = draw(gen.script(spec, states, place_kw=dict(kinds=("LIMIT", "LIMIT", "LIMIT", "LOC", "MOC"), sp=True,
                                                            sizes="level"), max_entries=6))
        strategies.append(gen.strategy_spec(name, script=sc))
    client = {"bpe": draw(st.integers(0, 3)) > 0, "full_match": draw(st.integers(0, 5)) == 0,
              "min_bet_validation": draw(st.integers(0, 3)) == 0}
    cfg = {}
    if draw(st.integers(0, 3)) == 0:
        cfg["simulated_strategy_isolation"] = False
    return {"markets": [spec], "strategies": strategies, "clients": [client], "config": cfg}


@st.composite
def resting_scenario(draw, tier="quick"):
    """focused shape: an order that rests near the market, trades at/through its price arriving while
    a (partial) cancel / replace / update is in flight, then suspension / removal / close."""
    spec = world.default_market(0, 2)
    nt = len(world.ladder_prices(spec))
    mid = draw(st.integers(20, 200))
    side = draw(st.sampled_from(["BACK", "LAY"]))
    steps = [{"dt": 1000, "k": "book", "rc": [{"r": 0, "atb": [[mid - 1, 50.0], [mid - 2, 20.0]],
                                                "atl": [[mid + 1, 50.0], [mid + 2, 20.0]]}]}]
    # BACK rests above the best back price (in the lay queue), LAY below the best lay price
    tick = mid + draw(st.integers(0, 2)) if side == "BACK" else mid - draw(st.integers(0, 2))
    size = gen.size_c(draw, 100, 3000) / 100
    place = {"op": "place", "r": 0, "side": side, "type": "LIMIT", "tick": tick, "size": size,
             "pers": draw(st.sampled_from(["LAPSE", "PERSIST", "MARKET_ON_CLOSE"]))}
    n = draw(st.integers(3, 10))
    script = [{"m": 0, "at": 1, "ops": [place]}]
    if draw(st.integers(0, 3)) == 0:
        # directed: a first partial cancel completes, a second partial cancel (valid when requested) is overtaken
        # inside its latency window by a fill that leaves less than the requested reduction
        steps.append({"dt": 1000, "k": "book", "rc": []})  # placement executes
        script.append({"m": 0, "at": len(steps), "ops": [{"op": "cancel", "o": 0, "red": draw(st.sampled_from([0.2, 0.3, 0.5]))}]})
        steps.append({"dt": 1000, "k": "book", "rc": []})  # first cancel executes
        script.append({"m": 0, "at": len(steps), "ops": [{"op": "cancel", "o": 0, "red": draw(st.sampled_from([0.5, 0.8, 0.9, 1.0]))}]})
        fill = draw(st.sampled_from([0.3, 0.5, 0.8, 1.5]))
        steps.append({"dt": draw(st.sampled_from([30, 100])), "k": "book",
                      "rc": [{"r": 0, "trd": [[tick, max(0.02, round(2 * size * fill, 2))]]}]})
        steps.append({"dt": 200, "k": "book", "rc": []})  # second cancel executes
    for i in range(n):
        dt = draw(st.sampled_from([30, 60, 100, 130, 200, 1000]))
        k = draw(st.integers(0, 9))
        if k <= 6:
            thr = draw(st.integers(0, 2))
            t = tick + thr if side == "BACK" else tick - thr
            inc = gen.size_c(draw, 2, int(size * 150)) / 100
            steps.append({"dt": dt, "k": "book", "rc": [{"r": 0, "trd": [[t, inc]]}]})
        elif k == 7:
            steps.append({"dt": dt, "k": "remove", "r": draw(st.integers(0, 1)), "af": draw(st.sampled_from([2.0, 10, 50]))})
        elif k == 8:
            steps.append({"dt": dt, "k": "suspend", "bump": True})
            steps.append({"dt": dt, "k": "open", "bump": draw(st.booleans())})
        else:
            steps.append({"dt": dt, "k": "inplay", "bet_delay": 1, "status": "OPEN", "bump": True,
                          "bsp": [max(1.01, round(world.ladder_prices(spec)[tick] + draw(st.sampled_from([-0.5, 0.0, 0.7])), 2)), 3.0]})  # a starting price is never below 1.01
        if draw(st.integers(0, 2)) == 0:
            script.append({"m": 0, "at": len(steps), "ops": [draw(gen.follow_op())]})
    steps.append({"dt": 1000, "k": "suspend", "bump": True})
    steps.append({"dt": 1000, "k": "close", "results": draw(st.sampled_from([["WINNER", "LOSER"], ["LOSER", "WINNER"]]))})
    spec["steps"] = steps
    return {"markets": [spec], "strategies": [gen.strategy_spec("A", script=script)],
            "clients": [{"bpe": True, "full_match": False}], "config": {}}


def _lay_sp_exception(o):
    return o["side"] == "LAY" and o["pers"] == "MARKET_ON_CLOSE" and o["bsp_rec"]


def check(sc):
    lb = simlab.run_scenario(sc)
    if lb.error is not None:
        raise crash_violation(lb.error, sc, "run-aborted")
    last = {}  # oid -> previous snapshot
    moved = {}  # oid -> set of buckets that moved
    removed_at = {}
    classes = set()
    for rec in lb.log:
        for o in rec.get("orders", ()):
            if o["type"] != "LIMIT" or "PENDING" not in o["status_log"]:
                continue
            oid = o["oid"]
            size = o["size"]
            b = {"sm": o["sm"], "sr": o["sr"], "sc": o["sc"], "sl": o["sl"], "sv": o["sv"]}
            where = "%s@%s" % (rec["cb"], rec["idx"])
            exc = _lay_sp_exception(o)
            facts = (o["status"],)
            for k, v in b.items():
                if v < -1e-9 and not (exc and k == "sc"):
                    raise Violation("negative-bucket", (k,), "%s=%s for order %s at %s (buckets %s size %s log %s)" % (
                        k, v, o["side"], where, b, size, o["status_log"]), sc)
            total = b["sm"] + b["sr"] + b["sc"] + b["sl"] + b["sv"]
            if abs(total - size) > TOL:
                raise Violation("not-conserved", (), "buckets %s sum to %s != size %s at %s" % (b, total, size, where), sc)
            if o["complete"] != (b["sr"] == 0):
                raise Violation("complete-iff-no-remainder", ("complete" if o["complete"] else "not-complete", o["status"]),
                                "order complete=%s status=%s remaining=%s at %s (buckets %s log %s)" % (
                                    o["complete"], o["status"], b["sr"], where, b, o["status_log"]), sc)
            p = last.get(oid)
            if p is not None:
                for k in ("sm", "sc", "sl", "sv"):
                    if abs(b[k] - p[k]) > 1e-9:
                        moved.setdefault(oid, set()).add(k)
                if b["sm"] < p["sm"] - 1e-9:
                    # allowed only when the order's runner was removed (voided)
                    if not (b["sv"] > p["sv"] or _runner_removed(lb, sc, o, rec)):
                        raise Violation("matched-decreased", (o["status"],), "size_matched %s -> %s at %s without a void" % (
                            p["sm"], b["sm"], where), sc)
            else:
                for k in ("sm", "sc", "sl", "sv"):
                    if b[k]:
                        moved.setdefault(oid, set()).add(k)
            last[oid] = b
    nt = any(len(v) >= 2 for v in moved.values())
    for v in moved.values():
        if len(v) >= 2:
            classes.add("moved:" + "+".join(sorted(v)))
    if sc["clients"][0].get("full_match"):
        classes.add("full-match")
    if not sc["clients"][0].get("bpe", True):
        classes.add("bpe-off")
    kinds = {s["k"] for s in sc["markets"][0]["steps"]}
    for k in ("suspend", "inplay", "remove"):
        if k in kinds:
            classes.add("timeline:" + k)
    if not last:
        classes.add("no-limit-order-sent")
    return nt, classes


def _runner_removed(lb, sc, o, rec):
    spec = sc["markets"][0]
    for s in spec["steps"]:
        if s["k"] == "remove" and spec["runners"][s["r"]]["id"] == o["sel"]:
            return True
    return False


def sub_runs(col, budget, seed, tier, shard, nshards):
    run_given(col, scenario(tier), check, budget, seed, tier, "runs")


def sub_resting(col, budget, seed, tier, shard, nshards):
    run_given(col, resting_scenario(tier), check, budget, seed, tier, "resting")


def subchecks(tier):
    return [SubCheck("runs", sub_runs, 4000 if tier == "quick" else 160000),
            SubCheck("resting", sub_resting, 2000 if tier == "quick" else 80000)]


def replay(case, sub=None):
    check(case)
