"""C20 - Market closure is processed once, with results, for the right strategies."""
import datetime as dt
import types

from hypothesis import strategies as st

from .. import gen, simlab, world
from ..common import SubCheck, Violation, run_given, crash_violation

PROPERTY = "C20"
LEVEL = "exploration"
SHARDS = {"quick": 8, "thorough": 16}
RULE = (
    "Simulation: whole runs over 1-3 generated market files whose ending is drawn from {close, close+close, "
    "close+re-open+data+close, CLOSED as the very first update (+ optional re-open), dead-heat / each-way results}; "
    "strategies subscribed to all markets / a subset / with an empty filter, 1-2 clients, orders present or not, an "
    "extra middleware. Live: a real Flumine instance driven event by event (market books built by the real stream "
    "cache, CloseMarketEvents taken from its handler queue, raw-data recorder mode with dict updates), time passage "
    "modelled by back-dating date_time_closed, cleared flags set as the closure worker would. Non-trivial: a "
    "repeated close, a re-open, a market first seen CLOSED, recorder mode or a removal; distinct = distinct case JSON."
)
ASSUMPTIONS = [
    "cleared-orders / cleared-market events are expected once per closing update of a known market (the per-update reading of the statement)",
    "for a market first seen CLOSED only all-or-nothing is required",
    "live removal threshold is tested with closed ages at least 400 s away from the one-hour boundary (wall-clock granularity)",
]

ENDINGS = ["close", "close", "close2", "reopen", "first-closed", "first-closed-reopen"]
EPOCH = dt.datetime(1970, 1, 1)


def _ms(x):
    return int(round((x - EPOCH).total_seconds() * 1000))


def ending_steps(draw, spec, ending, removed=()):
    nr = len(spec["runners"])
    res1 = gen.results(draw, spec, removed)
    steps = []
    if ending in ("close", "close2", "reopen"):
        steps += [{"dt": 1000, "k": "suspend", "bump": True}, {"dt": 1000, "k": "close", "results": res1}]
    if ending == "close2":
        # the closing update repeated, or an amended result (re-settlement) sent while the market is still closed
        res2 = res1 if draw(st.booleans()) else gen.results(draw, spec, removed)
        steps.append({"dt": draw(st.sampled_from([0, 1000])) if res2 == res1 else 1000, "k": "close", "results": res2})
    if ending in ("reopen", "first-closed-reopen"):
        steps.append({"dt": 1000, "k": "reopen"})
        steps.append({"dt": 1000, "k": "book", "rc": [{"r": 0, "atb": [[20, 5.0]], "atl": [[24, 5.0]]}]})
        steps += [{"dt": 1000, "k": "suspend", "bump": True}, {"dt": 1000, "k": "close", "results": gen.results(draw, spec, removed)}]
    return steps


@st.composite
def sim_case(draw, tier="quick"):
    nm = draw(st.integers(1, 3))
    markets, scripts = [], []
    combined = nm > 1 and draw(st.integers(0, 3)) == 0
    for mi in range(nm):
        mt = draw(st.sampled_from(["WIN", "WIN", "PLACE", "EACH_WAY"]))
        spec = world.default_market(mi, draw(st.integers(2, 4)), event=draw(st.integers(0, 1)))
        spec["market_type"] = mt
        if draw(st.integers(0, 3)) == 0:
            # asian-handicap style: the same selection id on several handicap lines that settle differently
            nr_ = len(spec["runners"])
            spec["market_type"] = mt = "ASIAN_HANDICAP"
            spec["bsp_market"] = False
            spec["number_of_winners"] = 0
            spec["runners"] = [{"id": 1001 + (i % 2), "hc": [-0.5, 0.5, -1.5, 1.5][i], "af": None} for i in range(nr_)]
        if mt == "EACH_WAY":
            spec["each_way_divisor"] = draw(st.sampled_from([3, 4, 5]))
        if mt == "PLACE":
            spec["number_of_winners"] = 2
        ending = "close" if combined else draw(st.sampled_from(ENDINGS))
        spec["_ending"] = ending
        if ending.startswith("first-closed"):
            spec["initial_status"] = "CLOSED"
            steps = ending_steps(draw, spec, ending)
        else:
            n = draw(st.integers(1, 6))
            feats = {"remove": draw(st.integers(0, 1)), "suspend": 1, "inplay": 1, "books": 3, "trades": 2, "close": False, "max_dt_ms": 3000}
            body, states = draw(gen.timeline(spec, n, feats))
            if draw(st.integers(0, 2)):
                scripts += draw(gen.script(spec, states, mi=mi, max_entries=2, max_ops=2, place_kw=dict(kinds=("LIMIT",), sp=False, sizes="level")))
            if states[-1]["status"] != "OPEN":
                body.append({"dt": 1000, "k": "open", "bump": True})
            steps = body + ending_steps(draw, spec, ending, states[-1]["removed"])
        spec["steps"] = steps
        markets.append(spec)
    n_clients = draw(st.integers(1, 2))
    strategies = [gen.strategy_spec("ALL", script=scripts, client=0)]
    if draw(st.booleans()):
        strategies.append(gen.strategy_spec("SUB0", markets=[0], client=n_clients - 1, script=[]))
    if draw(st.booleans()):
        strategies.append(dict(gen.strategy_spec("EMPTY", script=[]), empty_filter=True))
    sc = {"markets": markets, "strategies": strategies, "clients": [{"min_bet_validation": False}] * n_clients,
          "config": {}, "record_mw": draw(st.booleans()), "event_processing": draw(st.booleans())}
    if combined:
        # ONE recording holding all the markets (event-level file) on a common one-second grid: every message then
        # carries the books of all its markets, and the closing books of all markets arrive in ONE final update.
        # (Only the plain ending: once a market of such a file has closed, the data layer re-emits its closed book
        #  with every later message, which is not a closing update of the recording.)
        sc["combined_file"] = True
        sc["event_processing"] = False
        longest = max(len(m["steps"]) for m in markets)
        for mi, m in enumerate(markets):
            m["start_pt"] = world.BASE_PT
            for st_ in m["steps"]:
                st_["dt"] = 1000
            m["steps"] = [{"dt": 1000, "k": "book", "rc": []} for _ in range(longest - len(m["steps"]))] + m["steps"]
    return sc


def check_sim(sc):
    if sc.get("combined_file"):
        ends = [world.render(m).updates[-1] for m in sc["markets"]]
        if len({u.pt for u in ends}) != 1 or any(u.status != "CLOSED" for u in ends) or \
                any(sum(1 for u in world.render(m).updates if u.status == "CLOSED") != 1 for m in sc["markets"]):
            # outside the generator's domain (reachable by minimisation only): a market of a shared recording that
            # closed before the others is re-emitted by the data layer with every later message
            return False, {"not-judged:combined-file-without-common-single-close"}
    with simlab.lab(sc, snapshots=True, snapshot_cbs=("process_closed_market", "check_market_book")) as lb:
        lb.run()
        if lb.error is not None:
            raise crash_violation(lb.error, sc, "run-aborted")
        return _eval_sim(sc, lb)


def _eval_sim(sc, lb):
    from flumine.markets.middleware import SimulatedMiddleware

    classes = set()
    nontrivial = False
    names = [s["name"] for s in sc["strategies"]]
    # events segmented by CloseMarketEvent
    segs = []
    cur = {"meta": 0, "cleared": 0}
    for e in lb.events:
        n = type(e).__name__
        if n == "ClearedOrdersMetaEvent":
            cur["meta"] += 1
        elif n == "ClearedMarketsEvent":
            cur["cleared"] += 1
        elif n == "CloseMarketEvent":
            cur["market"] = e.event.market_id
            cur["pt"] = _ms(e.event.publish_time)
            segs.append(cur)
            cur = {"meta": 0, "cleared": 0}
    if cur["meta"] or cur["cleared"]:
        raise Violation("cleared-events-without-close", (), "cleared events not followed by a close event: %s" % cur, sc)
    for mi, spec in enumerate(sc["markets"]):
        ups = lb.renderers[mi].updates
        ending = spec["_ending"]
        classes.add("ending:" + ending)
        if ending != "close":
            nontrivial = True
        seen_open = False
        closing = []
        for u in ups:
            if u.status == "CLOSED":
                closing.append((u, seen_open))
            else:
                seen_open = True
        sub = {"ALL": True, "SUB0": mi == 0 or bool(sc.get("combined_file")), "EMPTY": True}
        if sc.get("combined_file"):
            classes.add("several-markets-in-one-recording")
        msegs = [s for s in segs if s["market"] == spec["id"]]
        orders_by_pt = {}
        for (u, known) in closing:
            calls = {n: [r for r in lb.log if r["cb"] == "process_closed_market" and r["strategy"] == n and r["market"] == spec["id"] and _ms(r["pt"]) == u.pt]
                     for n in names}
            # identical consecutive closing updates may share a publish time (dt 0)
            same_pt = sum(1 for (v, _) in closing if v.pt == u.pt)
            seg = [s for s in msegs if s["pt"] == u.pt]
            if not known:
                total = sum(len(v) for v in calls.values())
                full = all(len(calls[n]) == same_pt for n in names if sub[n]) and len(seg) == same_pt
                if not (total == 0 and not seg) and not full:
                    raise Violation("close-of-unknown-market-half-processed", (), "market %s first seen CLOSED: callbacks %s, close events %d" % (
                        spec["id"], {k: len(v) for k, v in calls.items()}, len(seg)), sc)
                classes.add("first-seen-closed:" + ("ignored" if total == 0 else "processed"))
                continue
            for n in names:
                want = same_pt if sub[n] else 0
                if len(calls[n]) != want:
                    raise Violation("closed-callback-count", ("subscribed" if sub[n] else "not-subscribed", n),
                                    "market %s closing update at %d: strategy %s process_closed_market called %d times, expected %d" % (
                                        spec["id"], u.pt, n, len(calls[n]), want), sc)
                for r in calls[n]:
                    if r["status"] != "CLOSED":
                        raise Violation("closed-callback-book", (), "callback received a %s book" % r["status"], sc)
            if len(seg) != same_pt:
                raise Violation("close-event-count", (), "market %s update %d: %d close events logged, expected %d" % (spec["id"], u.pt, len(seg), same_pt), sc)
            any_rec = next((r for n in names for r in calls[n]), None)
            n_orders = len(any_rec["orders"]) if any_rec else 0
            for s_ in seg:
                if s_["cleared"] != len(lb.clients):
                    raise Violation("cleared-market-summaries", (), "market %s: %d cleared-market summaries for %d clients" % (spec["id"], s_["cleared"], len(lb.clients)), sc)
                if any_rec is not None and s_["meta"] != (1 if n_orders else 0):
                    raise Violation("cleared-orders-report", ("with-orders" if n_orders else "no-orders",),
                                    "market %s: %d cleared-orders reports, blotter has %d orders" % (spec["id"], s_["meta"], n_orders), sc)
            # results delivered to orders (runner status at this closing update)
            if any_rec:
                sel_ids = [(r["id"], r.get("hc", 0)) for r in spec["runners"]]
                for o in any_rec["orders"]:
                    exp = u.runner_status[sel_ids.index((o["sel"], o["hc"]))]
                    if o["runner_status"] != exp:
                        raise Violation("order-result", (exp,), "order on %s has runner_status %s at the closing callback, closing book says %s" % (o["sel"], o["runner_status"], exp), sc)
                if n_orders:
                    classes.add("closed-with-orders")
        # state after re-open: first delivered update after a close must see an open market with reset flags
        last_closed = False
        state_at_close = []
        for r in lb.log:
            if r["market"] != spec["id"] or r["strategy"] != "ALL":
                continue
            if r.get("cleared_flags_aliased"):
                raise Violation("cleared-flags-aliased", ("simulation",), "market %s: orders_cleared and market_cleared are one list object at %s" % (spec["id"], r["cb"]), sc)
            if r["cb"] == "check_market_book" and last_closed and state_at_close:
                # middleware state is released at removal: a re-opened market starts from fresh matching state
                kept = [x for x in r.get("sim_state", []) if any(x is y for y in state_at_close)]
                if kept:
                    raise Violation("middleware-state-not-released", ("re-opened",), "market %s re-opened: %d of its %d per-runner matching-state objects are the ones it had before the closure" % (
                        spec["id"], len(kept), len(r.get("sim_state", []))), sc)
                state_at_close = []
            if r["cb"] == "process_closed_market":
                state_at_close = list(r.get("sim_state", [])) or state_at_close
            if r["cb"] == "process_closed_market":
                last_closed = True
                if not r["market_closed"]:
                    raise Violation("market-not-marked-closed", (), "market.closed False inside the closed callback", sc)
            elif r["cb"] == "check_market_book":
                if last_closed:
                    classes.add("re-opened")
                    if r["market_closed"] or r["cleared_flags"] != (0, 0):
                        raise Violation("not-reopened", (), "data after close: closed=%s cleared flags %s" % (r["market_closed"], r["cleared_flags"]), sc)
                last_closed = False
        # final state
        market = lb.fw.markets.markets.get(spec["id"])
        final = ups[-1]
        if final.status == "CLOSED" and market is not None and any(k for (_, k) in closing if k) :
            if not market.closed or market.date_time_closed is None:
                raise Violation("market-not-marked-closed", ("final",), "closed=%s date_time_closed=%s" % (market.closed, market.date_time_closed), sc)
            for s in lb.strategies:
                left = [k for k in s._invested if k[0] == spec["id"]]
                if left:
                    raise Violation("runner-context-not-released", (s.name,), "runner contexts %s remain after closure" % left, sc)
            for mw in lb.fw._market_middleware:
                if isinstance(mw, SimulatedMiddleware) and spec["id"] in mw.markets:
                    raise Violation("middleware-state-not-released", (), "SimulatedMiddleware still holds analytics for %s" % spec["id"], sc)
            # settlement terms on every order
            winners = sum(1 for x in final.runner_status if x == "WINNER")
            sel_ids = [(r["id"], r.get("hc", 0)) for r in spec["runners"]]
            for o in market.blotter:
                exp_dh = winners if (winners > spec["number_of_winners"] and spec["number_of_winners"] > 0) else None
                if o.runner_status != final.runner_status[sel_ids.index((o.selection_id, o.handicap))] or o.market_type != spec["market_type"] \
                        or o.each_way_divisor != spec.get("each_way_divisor") or (exp_dh and o.number_of_dead_heat_winners != exp_dh):
                    raise Violation("order-settlement-terms", (), "order terms (%s, %s, %s, %s) vs closing book (%s, %s, %s, %s)" % (
                        o.runner_status, o.market_type, o.each_way_divisor, o.number_of_dead_heat_winners,
                        final.runner_status[sel_ids.index((o.selection_id, o.handicap))], spec["market_type"], spec.get("each_way_divisor"), exp_dh), sc)
    return nontrivial, classes


# ------------------------------------------------------------------------------------------
# live pump
# ------------------------------------------------------------------------------------------


@st.composite
def live_case(draw, tier="quick"):
    nm = draw(st.integers(1, 4))
    markets = []
    for mi in range(nm):
        spec = world.default_market(mi, 2, event=draw(st.integers(0, 1)))
        ending = draw(st.sampled_from(["close", "close2", "reopen", "first-closed"]))
        spec["_ending"] = ending
        if ending == "first-closed":
            spec["initial_status"] = "CLOSED"
            spec["steps"] = []
        else:
            spec["steps"] = [{"dt": 1000, "k": "book", "rc": [{"r": 0, "atb": [[20, 5.0]], "atl": [[24, 5.0]]}]}] + ending_steps(draw, spec, ending)
        markets.append(spec)
    ops = []
    remaining = [len(m["steps"]) + 1 for m in markets]
    raw_markets = draw(st.integers(0, 2))
    pool = []
    for mi, n in enumerate(remaining):
        pool += [("feed", mi)] * n
    order = draw(st.permutations(list(range(len(pool)))))
    # keep each market's own order: take "next step of market mi"
    seq = [pool[i][1] for i in order]
    for mi in seq:
        ops.append({"op": "feed", "m": mi})
        c = draw(st.integers(0, 5))
        if c == 0:
            ops.append({"op": "advance", "s": draw(st.sampled_from([1000, 2000, 5000]))})
        elif c == 1:
            ops.append({"op": "flag", "m": draw(st.integers(0, nm - 1))})
        elif c == 2 and raw_markets:
            ops.append({"op": "raw", "m": draw(st.integers(0, raw_markets - 1)), "status": draw(st.sampled_from(["OPEN", "CLOSED", "CLOSED", "DELTA"]))})  # DELTA: a price-only update without a market definition
    return {"markets": markets, "ops": ops, "raw_markets": raw_markets,
            "strategies": draw(st.sampled_from([["ALL"], ["ALL", "SUB0"], ["ALL", "EMPTY"], ["ALL", "SUB0", "EMPTY"]])),
            "raise_on_simulated": False}


def check_live(c):
    from flumine import Flumine, BaseStrategy, clients
    from flumine.events import events
    from flumine.markets.middleware import Middleware
    from flumine.streams.historicalstream import HistoricListener

    classes = set()
    nontrivial = False
    with simlab.clean_config({"simulated": False}):
        fw = Flumine(clients.BetfairClient(betting_client=None, username="live", order_stream=False))
        calls = []
        mw_calls = []

        class Rec(BaseStrategy):
            def check_market_book(self, market, market_book):
                return True

            def process_closed_market(self, market, market_book):
                calls.append((self.name, market.market_id, market_book if isinstance(market_book, dict) else market_book.publish_time_epoch,
                              market.closed))

        class RecMw(Middleware):
            def add_market(self, market):
                mw_calls.append(("add", market.market_id))

            def remove_market(self, market):
                mw_calls.append(("remove", market.market_id))

        fw.add_market_middleware(RecMw())
        RAW_UID = 999
        strategies = {}
        for n in c["strategies"]:
            s = Rec(market_filter={} if n == "EMPTY" else {"x": 1}, name=n)
            fw.strategies(s, fw.clients, fw)
            strategies[n] = s
        listeners, renderers, uids = [], [], []
        for mi, spec in enumerate(c["markets"]):
            uid = (mi + 1) * 10
            lst = HistoricListener(max_latency=None, update_clk=False)
            lst.register_stream(uid, "marketSubscription")
            listeners.append(lst)
            renderers.append(world.Renderer(spec))
            uids.append(uid)
            strategies["ALL"].historic_stream_ids.add(uid)
            if mi == 0 and "SUB0" in strategies:
                strategies["SUB0"].historic_stream_ids.add(uid)
        strategies["ALL"].historic_stream_ids.add(RAW_UID)
        fed = [0] * len(c["markets"])
        seen_open = [False] * len(c["markets"])
        ever_known = set()

        def pump():
            out = []
            while not fw.handler_queue.empty():
                ev = fw.handler_queue.get()
                if ev.EVENT_TYPE.name == "CLOSE_MARKET":
                    out.append(ev)
                    before = {m.market_id: (m.closed, m.date_time_closed) for m in fw.markets}
                    now = dt.datetime.utcnow()
                    expect_removed = {mid for mid, (closed, t) in before.items() if closed and t and (now - t).total_seconds() > 3600 + 300}
                    expect_kept = {mid for mid, (closed, t) in before.items() if not (closed and t and (now - t).total_seconds() > 3600 - 300)}
                    n_calls = len(calls)
                    fw._process_close_market(ev)
                    after = {m.market_id for m in fw.markets}
                    gone = set(before) - after
                    if not expect_removed <= gone:
                        raise Violation("closed-market-not-removed", (), "markets closed for more than an hour still present: %s" % (expect_removed - gone), c)
                    if gone & expect_kept:
                        raise Violation("market-removed-too-early", (), "removed %s although not closed for an hour (closed, since: %s)" % (
                            gone & expect_kept, {k: before[k] for k in gone & expect_kept}), c)
                    for mid in gone:
                        classes.add("removed")
                        for s in strategies.values():
                            if any(k[0] == mid for k in s._invested):
                                raise Violation("runner-context-not-released", (s.name,), "contexts for removed market %s remain" % mid, c)
                        # (a removed market can be added again later by new data: compare with the number of adds)
                        if mw_calls.count(("remove", mid)) != mw_calls.count(("add", mid)):
                            raise Violation("middleware-state-not-released", (), "middleware.remove_market called %d times for %s" % (mw_calls.count(("remove", mid)), mid), c)
                    yield_calls = calls[n_calls:]
                    out[-1] = (ev, yield_calls)
            return out

        for op in c["ops"]:
            if op["op"] == "feed":
                mi = op["m"]
                spec = c["markets"][mi]
                r = renderers[mi]
                if fed[mi] == 0:
                    r.first()
                elif fed[mi] - 1 < len(spec["steps"]):
                    r.apply(spec["steps"][fed[mi] - 1])
                else:
                    continue
                fed[mi] += 1
                u = r.updates[-1]
                lst = listeners[mi]
                if not lst.on_data(r.lines[-1]):
                    continue
                books = [cache.create_resource(uids[mi], snap=True) for cache in lst.stream._caches.values() if cache.active]
                known_before = spec["id"] in fw.markets.markets
                was_closed = known_before and fw.markets.markets[spec["id"]].closed
                flags_before = known_before and (len(fw.markets.markets[spec["id"]].orders_cleared) + len(fw.markets.markets[spec["id"]].market_cleared))
                fw._process_market_books(events.MarketBookEvent(books))
                market = fw.markets.markets.get(spec["id"])
                # strategies create runner contexts as they would when trading
                for s in strategies.values():
                    s.get_runner_context(spec["id"], spec["runners"][0]["id"], 0)
                if u.status == "CLOSED":
                    res = pump()
                    exp = [n for n in strategies if n in ("ALL", "EMPTY") or (n == "SUB0" and mi == 0)]
                    got = [x for (ev, cs) in res for x in cs]
                    if spec["id"] in ever_known or known_before or True:
                        names_called = sorted(n for (n, mid, _, _) in got if mid == spec["id"])
                        if names_called != sorted(exp) and not (not known_before and not seen_open[mi] and names_called == []):
                            raise Violation("closed-callback-count", ("live",), "market %s closing update: callbacks %s, expected %s" % (spec["id"], names_called, sorted(exp)), c)
                    for (n, mid, pt, closed) in got:
                        if mid == spec["id"] and (pt != u.pt or not closed):
                            raise Violation("closed-callback-book", ("live",), "callback with book time %s (closing update %s), market.closed=%s" % (pt, u.pt, closed), c)
                    m2 = fw.markets.markets.get(spec["id"])
                    if m2 is not None and (not m2.closed or m2.date_time_closed is None):
                        raise Violation("market-not-marked-closed", ("live",), "closed=%s" % m2.closed, c)
                    if was_closed:
                        classes.add("repeated-close")
                        nonlocal_nt = True
                else:
                    seen_open[mi] = True
                    if was_closed:
                        classes.add("re-opened")
                        if market.orders_cleared is market.market_cleared:
                            raise Violation("cleared-flags-aliased", ("live",), "after the re-open orders_cleared and market_cleared are one list object: recording a client in one records it in the other", c)
                        if market.closed or market.orders_cleared or market.market_cleared:
                            raise Violation("not-reopened", ("live",), "data after close: closed=%s flags %s/%s" % (market.closed, market.orders_cleared, market.market_cleared), c)
                ever_known.add(spec["id"])
            elif op["op"] == "advance":
                for m in fw.markets:
                    if m.closed and m.date_time_closed:
                        m.date_time_closed -= dt.timedelta(seconds=op["s"])
                classes.add("time-advanced")
            elif op["op"] == "flag":
                m = fw.markets.markets.get(c["markets"][op["m"]]["id"])
                if m is not None and m.closed:
                    m.orders_cleared.append("client")
                    m.market_cleared.append("client")
                    classes.add("cleared-flags-set")
            elif op["op"] == "raw":
                mid = "1.9%08d" % op["m"]
                datum = {"id": mid, "marketDefinition": {"status": op["status"], "runners": []}, "rc": []}
                if op["status"] == "DELTA":
                    datum = {"id": mid, "rc": [{"id": 1, "ltp": 2.0}]}
                    classes.add("recorder-delta-without-definition")
                known_before = mid in fw.markets.markets
                was_closed = known_before and fw.markets.markets[mid].closed
                fw._process_raw_data(events.RawDataEvent((RAW_UID, "clk", 1, [datum])))
                res = pump()
                got = [x for (ev, cs) in res for x in cs if x[1] == mid]
                classes.add("recorder-mode")
                if op["status"] == "CLOSED":
                    exp = sorted(n for n in strategies if n in ("ALL", "EMPTY"))
                    if sorted(n for (n, _, _, _) in got) != exp:
                        raise Violation("closed-callback-count", ("recorder",), "raw CLOSED datum for %s: callbacks %s expected %s" % (mid, sorted(n for (n, _, _, _) in got), exp), c)
                    for (n, _, payload, closed) in got:
                        if payload is not datum or not closed:
                            raise Violation("closed-callback-book", ("recorder",), "recorder callback payload/closed flag wrong", c)
                else:
                    if got:
                        raise Violation("closed-callback-count", ("recorder-open",), "callbacks for a non-closing raw update", c)
                    m = fw.markets.markets.get(mid)
                    if was_closed and (m.closed or m.orders_cleared or m.market_cleared):
                        raise Violation("not-reopened", ("recorder",), "raw data after close left closed=%s" % m.closed, c)
        fw.simulated_execution.shutdown()
        fw.betfair_execution.shutdown()
        fw.betdaq_execution.shutdown()
    nontrivial = bool(classes & {"removed", "re-opened", "repeated-close", "recorder-mode"})
    return nontrivial, classes


# ---- strategies with different listener filters on one recording (one historical stream each) ----------------------


@st.composite
def filters_case(draw, tier="quick"):
    """no orders; every strategy follows the same market file, through its own stream when its listener filter differs:
    the recording is replayed once per stream and each replay ends with the closure - each strategy is called once,
    for the closing update of ITS stream"""
    spec = world.default_market(0, 2)
    n = draw(st.integers(1, 5))
    feats = {"remove": 0, "suspend": 1, "inplay": 1, "books": 3, "trades": 2, "close": False, "max_dt_ms": 3000}
    body, states = draw(gen.timeline(spec, n, feats))
    if states[-1]["status"] != "OPEN":
        body.append({"dt": 1000, "k": "open", "bump": True})
    spec["steps"] = body + ending_steps(draw, spec, "close", states[-1]["removed"])
    spec["_ending"] = "close"
    LKS = [{}, {"inplay": False}, {"inplay": True}, {"seconds_to_start": 10}, {"max_inplay_seconds": 5}]
    names = ["A", "B", "C"][: draw(st.integers(2, 3))]
    strategies = []
    for nme in names:
        s_ = gen.strategy_spec(nme, script=[])
        s_["listener_kwargs"] = draw(st.sampled_from(LKS))
        strategies.append(s_)
    return {"filters": True, "markets": [spec], "strategies": strategies, "clients": [{"min_bet_validation": False}], "config": {},
            "event_processing": draw(st.booleans())}


def check_filters(sc):
    import json as _json

    if not sc.get("markets") or not sc["markets"][0].get("steps") or sc["markets"][0]["steps"][-1].get("k") != "close":
        return False, {"minimised-away"}
    with simlab.lab(sc, snapshots=False) as lb:
        lb.run()
        if lb.error is not None:
            raise crash_violation(lb.error, sc, "run-aborted")
        mid = sc["markets"][0]["id"]
        streams = {_json.dumps(s.get("listener_kwargs") or {}, sort_keys=True) for s in sc["strategies"]}
        classes = {"streams:%d" % len(streams)}
        for s in sc["strategies"]:
            calls = [r for r in lb.log if r["cb"] == "process_closed_market" and r["strategy"] == s["name"] and r["market"] == mid]
            if len(calls) != 1:
                raise Violation("closed-callback-count", ("separate-streams" if len(streams) > 1 else "shared-stream", s["name"]),
                                "strategy %s (listener %s) got process_closed_market %d times for the one closing update of its stream; listeners of all strategies: %s" % (
                                    s["name"], s.get("listener_kwargs"), len(calls), [x.get("listener_kwargs") for x in sc["strategies"]]), sc)
            if calls[0]["status"] != "CLOSED":
                raise Violation("closed-callback-book", ("separate-streams",), "callback received a %s book" % calls[0]["status"], sc)
    return len(streams) > 1, classes


def sub_filters(col, budget, seed, tier, shard, nshards):
    run_given(col, filters_case(tier), check_filters, budget, seed, tier, "filters")


def sub_sim(col, budget, seed, tier, shard, nshards):
    run_given(col, sim_case(tier), check_sim, budget, seed, tier, "simulation")


def sub_live(col, budget, seed, tier, shard, nshards):
    run_given(col, live_case(tier), check_live, budget, seed, tier, "live")


def subchecks(tier):
    q = tier == "quick"
    return [SubCheck("simulation", sub_sim, 1600 if q else 50000), SubCheck("live", sub_live, 1600 if q else 50000),
            SubCheck("filters", sub_filters, 600 if q else 20000)]


def replay(c, sub=None):
    if "ops" in c:
        check_live(c)
    elif c.get("filters"):
        check_filters(c)
    else:
        check_sim(c)
