"""C11 - Order-stream reconciliation converges on the exchange's view."""
import json

from hypothesis import strategies as st

from .. import livedouble, world
from ..common import SubCheck, Violation, run_given, crash_violation
from ..oracles import exposure as X

PROPERTY = "C11"
LEVEL = "exploration"
SHARDS = {"quick": 8, "thorough": 16}
RULE = (
    "Generated schedules on the live double (real Flumine + BetfairExecution + betfairlightweight order-stream cache + "
    "process_current_orders): 1-4 orders of 1-2 strategies, synchronous and async placement; operations: strategy "
    "requests (place / cancel full+partial / update / replace), exchange-side fills / lapses, taking an order-stream "
    "snapshot now and processing it later (stale) or twice (duplicate), running any queued execution task with stream "
    "snapshots processed while its API call is in flight, crash + restart (new Flumine, same strategies, same exchange "
    "state, fresh-subscription image of the still-executable bets), bets of an unknown strategy. At each quiescent "
    "point (no task outstanding, pending snapshots processed, latest full image processed once more) local orders are "
    "compared with the double's bet table. Non-trivial: a snapshot for an order processed between the exchange "
    "applying a request and flumine processing its response, or a restart; distinct = distinct schedule JSON."
)
ASSUMPTIONS = [
    "stream messages reach the cache in order; staleness is modelled as a snapshot taken earlier and processed later (relative to REST responses), duplicates as the same snapshot processed twice",
    "no transport faults here (C12 enumerates them); the exchange answers requests the way its bet table dictates",
    "a trade's multi-order grouping is not recoverable after a restart and is not compared",
]

OPS = ["place", "place", "cancel", "cancel_part", "update", "replace", "replace", "task_race", "fill", "fill_part", "lapse", "snap", "snap", "process", "process",
       "process_dup", "task", "task", "task_race", "task_race", "task_fail", "task_outcome", "quiesce", "restart", "foreign"]


@st.composite
def schedule(draw, tier="quick"):
    n = draw(st.integers(4, 25 if tier == "quick" else 50))
    ops = []
    for _ in range(n):
        k = draw(st.sampled_from(OPS))
        op = {"op": k}
        if k == "place":
            op.update(s=draw(st.integers(0, 1)), r=draw(st.integers(0, 2)), side=draw(st.sampled_from(["BACK", "LAY"])),
                      tick=draw(st.integers(30, 90)), size=draw(st.sampled_from([2.0, 5.0, 10.0])),
                      typ=draw(st.sampled_from(["LIMIT", "LIMIT", "LIMIT", "LOC", "MOC"])))
        elif k in ("cancel", "cancel_part", "update", "replace", "fill", "fill_part", "lapse"):
            op["o"] = draw(st.integers(0, 5))
            if k == "cancel_part":
                op["frac"] = draw(st.sampled_from([0.25, 0.5, 0.6, 0.75]))
        elif k in ("task", "task_race"):
            op["k"] = draw(st.integers(0, 3))
            if k == "task_race":
                op["race"] = draw(st.lists(st.sampled_from(["fill", "fill_part", "snap+process", "snap+process", "process", "lapse", "request"]), min_size=1, max_size=3))
                op["o"] = draw(st.integers(0, 5))
        elif k == "task_fail":
            # the API call of a queued package fails in transit n times in a row (4 = every attempt: retries exhausted)
            op.update(k=draw(st.integers(0, 3)), n=draw(st.sampled_from([1, 2, 4, 4])),
                      transport=draw(st.sampled_from(["connection", "timeout", "http500", "garbage", "rpc-error"])))
        elif k == "task_outcome":
            # the call is answered, but the instruction reports say TIMEOUT (outcome unknown: the exchange may or may
            # not have taken the instruction) or FAILURE
            op.update(k=draw(st.integers(0, 3)), outcome=draw(st.sampled_from(["TIMEOUT_ACCEPTED", "TIMEOUT_ACCEPTED", "TIMEOUT", "FAILURE:BET_ACTION_ERROR"])))
        elif k == "process":
            op["n"] = draw(st.integers(1, 3))
        elif k == "foreign":
            # the unknown strategy's bet may sit in a market this framework has never seen
            op["other_market"] = draw(st.booleans())
        elif k == "restart":
            # the new instance may receive the image of its bets BEFORE the first market data of that market
            op["orders_first"] = draw(st.booleans())
            # ... and may register its second strategy only after the first image was processed
            op["staged"] = draw(st.booleans())
        ops.append(op)
    directed = draw(st.integers(0, 9))
    if directed <= 1:
        # an order is placed and acknowledged, then ...
        pre = [{"op": "place", "s": 0, "r": 0, "side": draw(st.sampled_from(["BACK", "LAY"])), "tick": 60, "size": draw(st.sampled_from([5.0, 10.0])), "typ": "LIMIT"},
               {"op": "task", "k": 0}, {"op": "snap"}, {"op": "process", "n": 1}]
        if directed == 0:
            # ... chased: replaced, then the replacement replaced again, and the stream reports the newest bet before
            # the response of that second replace is handled
            pre += [{"op": "replace", "o": 0}, {"op": "task", "k": 0}, {"op": "snap"}, {"op": "process", "n": 1},
                    {"op": "replace", "o": -1}, {"op": "task_race", "k": 0, "o": -1, "race": ["snap+process"]}, {"op": "snap"}, {"op": "process", "n": 1}]
        else:
            # ... partly cancelled (more / less than half of what is left); the stream reflects the reduction before
            # the cancel response is handled
            pre += [{"op": "cancel_part", "o": 0, "frac": draw(st.sampled_from([0.25, 0.6, 0.75]))},
                    {"op": "task_race", "k": 0, "o": 0, "race": ["snap+process"]}, {"op": "snap"}, {"op": "process", "n": 1}]
        ops = pre + ops
    c = {"ops": ops, "async": draw(st.integers(0, 3)) == 0, "strategies": draw(st.sampled_from([["S"], ["S", "T"]]))}
    if draw(st.integers(0, 3)) == 0:
        c["handicap"] = True  # asian-handicap style market: one selection id on two lines, another on a third
    return c


class Driver:
    def __init__(self, c):
        self.c = c
        self.spec = world.default_market(0, 3)
        if c.get("handicap"):
            self.spec["market_type"] = "ASIAN_HANDICAP"
            self.spec["number_of_winners"] = 0
            self.spec["bsp_market"] = False
            self.spec["runners"] = [{"id": 1001, "hc": -1.5, "af": None}, {"id": 1001, "hc": 1.5, "af": None}, {"id": 1002, "hc": 0.5, "af": None}]
        self.exchange = livedouble.Exchange()
        self.lab = None
        self.orders = []  # local order objects of the current instance, creation order
        self.snaps = []  # snapshots taken (CurrentOrders lists) not yet processed
        self.classes = {"handicap-lines"} if c.get("handicap") else set()
        self.nontrivial = False
        self.adopted_checked = False
        self.accepted_during_flight = []  # requests accepted on an order while an API call for it was in flight
        self.timeout_accepted = set()  # ids of orders whose synchronous placement was answered TIMEOUT although the exchange took the bet
        self.start()

    def start(self, feed=True, defer=False):
        names = self.c["strategies"][:1] if defer else self.c["strategies"]
        self.lab = livedouble.LiveLab([self.spec], strategies=names, async_place=self.c["async"], exchange=self.exchange)
        if feed:
            self.feed_market()
        self.orders = []
        self.snaps = []

    def feed_market(self):
        self.lab.feed(0)
        self.lab.feed(0, {"k": "book", "dt": 1000, "rc": [{"r": i, "atb": [[40, 50.0]], "atl": [[44, 50.0]]} for i in range(3)]})

    def hook(self, label):
        if getattr(self, "after_op", None):
            self.after_op(self, {"op": label})

    def close(self):
        if self.lab:
            self.lab.close()

    # ---- snapshots --------------------------------------------------------------------------
    def take_snap(self, full=False, only_executable=False):
        msg = self.exchange.message(self.spec["id"], full_image=full, only_executable=only_executable)
        other = None
        if any(b.market_id == self.FOREIGN_MARKET for b in self.exchange.bets.values()):
            other = self.exchange.message(self.FOREIGN_MARKET, full_image=full, only_executable=only_executable)
        if msg is None and other is None:
            return
        lab = self.lab
        for m_ in (msg, other):
            if m_ is not None:
                lab.olistener.on_data(json.dumps(m_))
        while not lab.oq.empty():
            books = lab.oq.get()
            for b in books:
                b.client = lab.client
            self.snaps.append(books)

    def process_snap(self, dup=False):
        if not self.snaps:
            return
        books = self.snaps.pop(0)
        ev = self.lab._events.CurrentOrdersEvent(books)
        self.lab.fw._process_current_orders(ev)
        if self.lab.fw.markets.markets.get(self.FOREIGN_MARKET) is not None:
            raise Violation("unknown-strategy-bet-had-an-effect", ("market-created",),
                            "a bet of an unknown strategy in market %s made the framework register that market" % self.FOREIGN_MARKET, self.c)
        if dup:
            self.lab.fw._process_current_orders(self.lab._events.CurrentOrdersEvent(books))
            self.classes.add("duplicate-snapshot")

    # ---- ops ----------------------------------------------------------------------------------
    def bet_of(self, k):
        bets = [b for b in self.exchange.bets.values() if b.sref == self.exchange.sref]
        return bets[k % len(bets)] if bets else None

    def apply(self, op):
        from flumine.exceptions import FlumineException

        lab = self.lab
        k = op["op"]
        m = lab.market(0)
        try:
            if k == "place":
                s = lab.strategies[op["s"] % len(lab.strategies)]
                o = lab.make_order(s, 0, runner=op["r"], side=op["side"], tick=op["tick"], size=op["size"], typ=op["typ"])
                if m.place_order(o):
                    self.orders.append(o)
            elif k in ("cancel", "cancel_part", "update", "replace"):
                live = [o for o in m.blotter if o.status is not None]
                if not live:
                    return
                o = live[op["o"] % len(live)]
                if k == "cancel":
                    m.cancel_order(o)
                elif k == "cancel_part":
                    m.cancel_order(o, size_reduction=round(max(0.01, (o.size_remaining or 0.02) * op.get("frac", 0.5)), 2))
                elif k == "update":
                    m.update_order(o, "PERSIST" if getattr(o.order_type, "persistence_type", None) != "PERSIST" else "LAPSE")
                else:
                    m.replace_order(o, lab.prices[0][min(300, lab.prices[0].index(o.order_type.price) + 3)] if getattr(o.order_type, "price", None) in lab.prices[0] else 2.0)
            elif k in ("fill", "fill_part", "lapse"):
                b = self.bet_of(op["o"])
                if b is None:
                    return
                if k == "fill":
                    self.exchange.fill(b.bet_id)
                elif k == "fill_part":
                    self.exchange.fill(b.bet_id, round(max(0.01, b.sr / 2), 2))
                else:
                    self.exchange.lapse(b.bet_id)
            elif k == "snap":
                self.take_snap()
            elif k == "process":
                for _ in range(op.get("n", 1)):
                    self.process_snap()
            elif k == "process_dup":
                self.process_snap(dup=True)
            elif k in ("task", "task_race"):
                if not lab.pool.queue:
                    return
                if k == "task_race":
                    race = op["race"]

                    pk_orders = list(lab.pool.queue[op.get("k", 0) % len(lab.pool.queue)][1][0]._orders)

                    def hook(l, race=race, o=op["o"]):
                        for r in race:
                            b = self.bet_of(o)
                            if r == "request":
                                # the strategy asks to cancel the very orders whose API call is in flight right now
                                m_ = lab.market(0)
                                for x in pk_orders:
                                    before = x.status.name if x.status else None
                                    try:
                                        ok = m_.cancel_order(x)
                                    except FlumineException:
                                        ok = False
                                    if ok:
                                        self.accepted_during_flight.append((before, x.bet_id, self.c["async"]))
                                continue
                            if r == "fill" and b:
                                self.exchange.fill(b.bet_id)
                            elif r == "fill_part" and b:
                                self.exchange.fill(b.bet_id, round(max(0.01, b.sr / 2), 2))
                            elif r == "lapse" and b:
                                self.exchange.lapse(b.bet_id)
                            elif r == "snap+process":
                                self.take_snap()
                                self.process_snap()
                                self.classes.add("snapshot-between-request-and-response")
                                self.nontrivial = True
                            elif r == "process":
                                if self.snaps:
                                    self.classes.add("stale-snapshot-during-call")
                                self.process_snap()

                    lab.call_plan.append({"hook": hook})
                lab.run_task(op.get("k", 0))
            elif k == "task_outcome":
                if not lab.pool.queue:
                    return
                pk = lab.pool.queue[op.get("k", 0) % len(lab.pool.queue)][1][0]
                if pk.package_type.name == "PLACE" and op["outcome"] == "TIMEOUT_ACCEPTED" and not self.c["async"]:
                    self.timeout_accepted.update(id(o) for o in pk._orders)
                lab.call_plan = [{"outcomes": [op["outcome"]] * 3}]
                lab.run_task(op.get("k", 0))
                lab.call_plan = []
                self.classes.add("instruction-report:" + op["outcome"].split(":")[0])
                self.nontrivial = True
            elif k == "task_fail":
                if not lab.pool.queue:
                    return
                lab.call_plan = [{"transport": op["transport"]} for _ in range(op["n"])]
                lab.run_task(op.get("k", 0))
                lab.run_all()  # the retries are queued again by the handler
                lab.call_plan = []
                self.classes.add("api-call-failed-%s" % ("on-every-attempt" if op["n"] >= 4 else "then-recovered"))
                self.nontrivial = True
            elif k == "quiesce":
                self.quiesce()
            elif k == "restart":
                self.restart(op.get("orders_first", False), op.get("staged", False))
            elif k == "foreign":
                self.foreign_bet(op.get("other_market", False))
        except FlumineException:
            pass  # state guards rejecting a request are fine

    FOREIGN_MARKET = "1.199999999"

    def foreign_bet(self, other_market=False):
        """a bet of a strategy this framework does not know: must be ignored without effect"""
        instr = {"selectionId": self.spec["runners"][0]["id"], "handicap": self.spec["runners"][0].get("hc", 0), "side": "BACK", "orderType": "LIMIT",
                 "customerOrderRef": "ffffffffffff0-123456789012345678", "limitOrder": {"price": 2.0, "size": 2.0, "persistenceType": "LAPSE"}}
        b = self.exchange.new_bet(self.FOREIGN_MARKET if other_market else self.spec["id"], instr)
        if other_market:
            self.classes.add("unknown-strategy-bet-in-unknown-market")
        b.sref = self.exchange.sref
        b.ref = instr["customerOrderRef"]
        self.classes.add("unknown-strategy-bet")

    def restart(self, orders_first=False, staged=False):
        """crash: everything local is lost; a new instance subscribes and gets the image of the executable bets"""
        self.lab.close()
        staged = staged and len(self.c["strategies"]) > 1
        if staged:
            self.classes.add("restart-second-strategy-registered-after-first-image")
        if orders_first:
            # the order stream delivers its image before the market stream delivered anything for the market: the
            # bets are adopted into a market that has no market book yet, then the market data arrives
            self.start(feed=False, defer=staged)
            self.take_snap(full=True, only_executable=True)
            while self.snaps:
                self.process_snap()
            if staged:
                self.lab.add_strategy(self.c["strategies"][1])
                self.take_snap(full=True, only_executable=True)
                while self.snaps:
                    self.process_snap()
            self.hook("restart:image-before-market-data")
            pre = list(self.local_orders())
            self.feed_market()
            m = self.lab.market(0)
            for o in pre:
                if m is None or m.blotter._orders.get(o.id) is not o:
                    raise Violation("adopted-order-lost-when-market-data-arrived", (), "order %s (bet %s) adopted before the first market book is %s afterwards" % (
                        o.id, o.bet_id, "not in the blotter" if m is None or o.id not in m.blotter._orders else "another object"), self.c)
            self.hook("restart:market-data-after-image")
            if pre:
                self.classes.add("restart-orders-adopted-before-market-data")
        else:
            self.start(defer=staged)
            if staged:
                # the bets of the strategy not yet registered are unknown at first and must be adopted once it is
                self.take_snap(full=True, only_executable=True)
                while self.snaps:
                    self.process_snap()
                self.lab.add_strategy(self.c["strategies"][1])
        self.take_snap(full=True, only_executable=True)
        while self.snaps:
            self.process_snap()
        self.classes.add("restart")
        self.nontrivial = True
        if getattr(self, "convergence", True):
            self.check_adoption(after_restart=True)

    # ---- oracle -----------------------------------------------------------------------------------
    def quiesce(self):
        lab = self.lab
        lab.call_plan = []
        lab.run_all()
        self.take_snap()
        while self.snaps:
            self.process_snap()
        self.take_snap(full=True)
        while self.snaps:
            self.process_snap()
        if getattr(self, "convergence", True):
            self.check_convergence()

    def local_orders(self):
        m = self.lab.market(0)
        return list(m.blotter) if m else []

    def check_convergence(self):
        lab = self.lab
        m = lab.market(0)
        local = self.local_orders()
        by_bet = {}
        for o in local:
            if o.bet_id:
                by_bet.setdefault(str(o.bet_id), []).append(o)
        hashes = {s.name_hash for s in lab.strategies}
        for b in self.exchange.bets.values():
            known = b.ref[:13] in hashes
            os_ = by_bet.get(b.bet_id, [])
            if not known:
                if os_:
                    raise Violation("unknown-strategy-bet-adopted", (), "bet %s of an unknown strategy has a local order" % b.bet_id, self.c)
                continue
            if b.status != "EXECUTABLE" and not os_ and self.classes & {"restart"}:
                continue  # completed before the restart: not in a fresh subscription's image
            if len(os_) != 1:
                facts = ("none" if not os_ else "several", b.ot)
                if not os_ and any(x.bet_id is None and x.status.name == "PENDING" and id(x) in self.timeout_accepted and x.customer_order_ref == b.ref
                                   for x in local):
                    # the recorded defect: the placement was answered TIMEOUT (outcome unknown), the exchange had taken
                    # the bet; the stream reports it under the order's reference but a bet id is only picked up from
                    # the stream for asynchronous placements - the order stays PENDING without a bet id for ever
                    facts += ("placement-answered-timeout-bet-id-never-learnt",)
                raise Violation("bet-not-represented-once", facts,
                                "bet %s (%s) has %d local orders" % (b.bet_id, b.view(), len(os_)), self.c)
            o = os_[0]
            if o.complete != (b.status == "EXECUTION_COMPLETE"):
                cause = "other"
                cr = o.responses.cancel_responses
                log = [x.name for x in o.status_log]
                if cr and cr[-1].status == "SUCCESS" and cr[-1].instruction.size_reduction and log[-2:] == ["CANCELLING", "EXECUTION_COMPLETE"] \
                        and b.status == "EXECUTABLE":
                    last = [h for h in b.hist if h[0] == "partial-cancel"][-1:]
                    # the recorded defect: the amount cancelled equals what is left afterwards (e.g. cancelling half)
                    cause = "partial-cancel-equal-to-remainder-after-stream-update" if last and abs(last[0][1] - last[0][2]) < 1e-9 else "partial-cancel-other"
                raise Violation("completeness-differs-from-exchange", (o.status.name, b.status, cause), "bet %s: local %s, exchange %s (log %s)" % (
                    b.bet_id, o.status.name, b.status, [x.name for x in o.status_log]), self.c)
            mine = (o.size_matched, o.size_remaining, o.size_cancelled, o.size_lapsed, o.size_voided)
            theirs = (b.sm, b.sr, b.sc, b.sl, b.sv)
            if o.order_type.ORDER_TYPE.name == "LIMIT" and any(abs((x or 0) - y) > 1e-9 for x, y in zip(mine, theirs)):
                raise Violation("sizes-differ-from-exchange", (o.status.name,), "bet %s: local (matched, remaining, cancelled, lapsed, voided) %s, exchange %s" % (b.bet_id, mine, theirs), self.c)
            if o.complete and o in m.blotter.live_orders:
                raise Violation("complete-order-in-live-list", (), "bet %s complete but still in live_orders" % b.bet_id, self.c)
            if o.complete and all(x.complete for x in o.trade.orders) and o.trade.status.name != "COMPLETE":
                raise Violation("trade-not-complete", (o.trade.status.name,), "all orders of the trade complete, trade %s" % o.trade.status.name, self.c)
            same_ref = sum(1 for x in self.exchange.bets.values() if x.ref == b.ref)
            # (a replacement bet carries the customer reference of the order it replaced; its local order has a new id)
            if (o.market_id, o.selection_id) != (b.market_id, b.sel) or o.trade.strategy.name_hash != b.ref[:13] or (same_ref == 1 and o.id != b.ref[14:]):
                raise Violation("adopted-into-wrong-place", (), "bet %s attached to %s/%s/%s" % (b.bet_id, o.market_id, o.selection_id, o.trade.strategy.name), self.c)
        # orders the exchange never heard of must not be live locally (except placements not yet answered)
        for o in local:
            if o.bet_id and str(o.bet_id) not in self.exchange.bets:
                raise Violation("local-order-with-unknown-bet", (), "local bet id %s unknown to the exchange" % o.bet_id, self.c)
        # "... and their trades have completed / count towards the live-trade accounting": the runner contexts are
        # recounted from the orders (the C10 recount) at the quiescent point
        from . import c10

        c10.live_invariant(self, {"op": "quiescent-point"})
        self.classes.add("quiescent-point-checked")

    def check_adoption(self, after_restart=False):
        lab = self.lab
        m = lab.market(0)
        n1 = len(self.local_orders())
        # the same image again adds nothing
        self.take_snap(full=True, only_executable=True)
        while self.snaps:
            self.process_snap()
        if len(self.local_orders()) != n1:
            raise Violation("adopted-twice", (), "re-delivering the image changed the number of local orders %d -> %d" % (n1, len(self.local_orders())), self.c)
        hashes = {s.name_hash: s for s in lab.strategies}
        # exposure and live-trade accounting of the new instance follow the exchange's bets
        per = {}
        for b in self.exchange.bets.values():
            if b.status != "EXECUTABLE" or b.ref[:13] not in hashes:
                continue
            per.setdefault((b.ref[:13], b.sel, b.hc), []).append(b)
        for (h, sel, hc), bets in per.items():
            s = hashes[h]
            lookup = (self.spec["id"], sel, hc)
            pos = []
            for b in bets:
                if b.ot == "LIMIT":
                    pos.append({"side": b.side, "kind": "LIMIT", "fills": [(b.avp, b.sm)] if b.sm else [], "open": (b.price, b.sr) if b.sr > 0 else None})
                else:
                    pos.append({"side": b.side, "kind": "SP", "liability": b.liability})
            exp = X.selection_worst(pos)
            got = m.blotter.get_exposures(s, lookup)
            if abs(got["worst_possible_profit_on_win"] - exp["win"]) > 0.03 or abs(got["worst_possible_profit_on_lose"] - exp["lose"]) > 0.03:
                raise Violation("exposure-after-restart", (), "runner %s: exposures %s, from the exchange's bets %s" % (sel, got, exp), self.c)
            rc = s.get_runner_context(*lookup)
            if not rc.executable_orders:
                raise Violation("live-trades-after-restart", (), "runner %s has live bets at the exchange but the strategy's runner context is not live" % sel, self.c)
            if len(rc.live_trades) != len(bets):
                raise Violation("live-trades-after-restart", ("count",), "runner %s: %d live trades for %d adopted live bets" % (sel, len(rc.live_trades), len(bets)), self.c)
        self.classes.add("adoption-checked")


def check(c, after_op=None, convergence=True):
    d = Driver(c)
    d.convergence = convergence
    d.after_op = after_op
    try:
        for op in c["ops"]:
            d.apply(op)
            if after_op:
                after_op(d, op)
        d.quiesce()
        if after_op:
            after_op(d, {"op": "final"})
        return d.nontrivial, d.classes
    except Violation:
        raise
    except Exception as e:
        raise crash_violation(e, c, "crash")
    finally:
        d.close()


def sub_schedules(col, budget, seed, tier, shard, nshards):
    run_given(col, schedule(tier), check, budget, seed, tier, "schedules")


def subchecks(tier):
    q = tier == "quick"
    return [SubCheck("schedules", sub_schedules, 12000 if q else 400000)]


def replay(c, sub=None):
    check(c)
