"""C19 - Order references are unique, valid and round-trip."""
import string
import threading

from hypothesis import strategies as st

from .. import simlab
from ..common import SubCheck, Violation, run_given, HarnessError

PROPERTY = "C19"
LEVEL = "exploration"
SHARDS = {"quick": 4, "thorough": 16}
RULE = (
    "Strategy names from st.text() (empty, unicode, up to 10k characters, 2-5 distinct names), separators from the "
    "valid set and arbitrary strings of length 0/1/2, 1-2000 orders created in tight loops under the real and the "
    "simulated clock (and 2-16 real threads in a bounded stress sub-check); references are replayed as real "
    "CurrentOrders resources through process_current_orders of a second framework instance with the same "
    "strategies. Sub-check sim_runs: whole simulation runs over 2-3 recordings with the same publish times (played "
    "one after the other or as an event group), orders created at the same simulated instants in each; every "
    "reference of the run is distinct and valid (non-trivial: orders created at the same instant in two markets). "
    "Non-trivial: non-ASCII or > 32 character names, or >= 100 orders in one loop, or an invalid "
    "separator; distinct = distinct case JSON."
)
ASSUMPTIONS = [
    "exchange character set for customerOrderRef: letters, digits and - . _ + * : ; ~ ; limit 32 characters",
    "thread uniqueness is sampled (bounded stress), not enumerated",
]

VALID = set(string.ascii_letters) | set(string.digits) | set("-._+*:;~")


@st.composite
def case(draw, tier="quick"):
    n_names = draw(st.integers(2, 5))
    big = draw(st.integers(0, 9)) == 0
    names = draw(st.lists(st.one_of(st.text(max_size=40), st.text(alphabet="abcXYZ-_ é漢", min_size=0, max_size=10_000 if big else 60),
                                    st.sampled_from(["", " ", "a", "Strategy", "x" * 33])),
                          min_size=n_names, max_size=n_names, unique=True))
    if draw(st.integers(0, 3)) == 0:  # names sharing a long prefix / differing in one character
        base = draw(st.text(alphabet="abcXYZ-_ é漢", min_size=draw(st.sampled_from([1, 13, 24, 32, 40])), max_size=50))
        names = [base + suf for suf in ["", "1", "2", " ", "é"][:n_names]]
    sep_kind = draw(st.sampled_from(["valid", "valid", "valid", "invalid1", "len0", "len2", "any"]))
    if sep_kind == "valid":
        sep = draw(st.sampled_from(sorted(VALID)))
    elif sep_kind == "invalid1":
        sep = draw(st.characters(blacklist_characters="".join(sorted(VALID))))
    elif sep_kind == "len0":
        sep = ""
    elif sep_kind == "len2":
        sep = draw(st.text(alphabet="-._ab", min_size=2, max_size=2))
    else:
        sep = draw(st.text(max_size=2))
    n_orders = draw(st.sampled_from([1, 2, 5, 50, 100, 300, 2000 if tier == "thorough" else 600]))
    return {"names": names, "sep": sep, "n_orders": n_orders, "simulated": draw(st.booleans()),
            "unknown": draw(st.booleans()), "stages": draw(st.sampled_from([1, 1, 2, 3])),
            "closed": draw(st.booleans()),
            # the separator may also come from the documented setting flumine.config.order_sep (set at run time)
            "via_config": draw(st.integers(0, 3)) == 0,
            "replaced_twins": draw(st.integers(0, 2)) == 0,
            "betdaq_first": draw(st.integers(0, 2)) == 0}


def make_orders(strategy, n, sep, market_id="1.100000000"):
    from flumine.order.trade import Trade
    from flumine.order.ordertype import LimitOrder

    out = []
    for i in range(n):
        t = Trade(market_id, 1001 + (i % 3), 0, strategy)
        out.append(t.create_order("BACK", LimitOrder(2.0, 2.0), sep=sep) if sep is not None else t.create_order("BACK", LimitOrder(2.0, 2.0)))
    return out


def current_order_resource(ref, bet_id, market_id, sel, matched=0.0):
    from betfairlightweight.resources.bettingresources import CurrentOrder

    return CurrentOrder(
        betId=str(bet_id), marketId=market_id, selectionId=sel, handicap=0, priceSize={"price": 2.0, "size": 2.0},
        bspLiability=0.0, side="BACK", status="EXECUTABLE", persistenceType="LAPSE", orderType="LIMIT",
        placedDate="2020-01-01T00:00:00.000Z", averagePriceMatched=2.0 if matched else 0.0, sizeMatched=matched,
        sizeRemaining=round(2.0 - matched, 2),
        sizeLapsed=0.0, sizeCancelled=0.0, sizeVoided=0.0, regulatorCode="x", customerOrderRef=ref,
        customerStrategyRef="h")


def check(c):
    import datetime as _dt
    from flumine import BaseStrategy, Flumine, clients
    from flumine.order.trade import Trade
    from flumine.order.ordertype import LimitOrder
    from flumine.events import events
    from flumine.simulation.utils import SimulatedDateTime

    classes = set()
    sep = c["sep"]
    sep_valid = len(sep) == 1 and sep in VALID
    via_config = bool(c.get("via_config"))
    with simlab.clean_config({"simulated": False, "order_sep": sep} if via_config else {"simulated": False}):
        strategies = [BaseStrategy(market_filter={}, name=n) for n in c["names"]]
        ctx = SimulatedDateTime() if c["simulated"] else None
        if ctx:
            ctx.__enter__()
            ctx(_dt.datetime(2023, 1, 1, 12, 0, 0))
            classes.add("simulated-clock")
        try:
            if via_config:
                # orders created the normal way, without an explicit separator: whatever the setting holds, every
                # reference must come out valid (all clauses below); an invalid setting may be rejected or ignored
                classes.add("separator-from-config:" + ("valid" if sep_valid else "invalid"))
                sep_use = None
            elif not sep_valid:
                if c.get("betdaq_first"):
                    # the process also trades on Betdaq, whose references are plain order ids: any separator is accepted
                    # there - that must not make it acceptable for a Betfair reference afterwards
                    from flumine.order.ordertype import BetdaqLimitOrder

                    Trade("12345", 1, 0, strategies[0]).create_betdaq_order("BACK", BetdaqLimitOrder(2.0, 2.0, 1, 0, 0), sep=sep)
                    classes.add("same-separator-used-for-a-betdaq-order-first")
                t = Trade("1.100000000", 1001, 0, strategies[0])
                try:
                    t.create_order("BACK", LimitOrder(2.0, 2.0), sep=sep)
                except ValueError:
                    pass
                else:
                    raise Violation("invalid-separator-accepted", ("len:%d" % len(sep),), "separator %r accepted" % sep, c)
                if t.orders:
                    raise Violation("invalid-separator-left-order", (), "trade.orders=%r after the rejected separator" % t.orders, c)
                classes.add("invalid-separator")
                sep_use = "-"
            else:
                sep_use = sep
                classes.add("valid-separator")
            orders = []
            per = max(1, c["n_orders"] // len(strategies))
            try:
                for s in strategies:
                    orders += [(s, o) for o in make_orders(s, per, sep_use)]
            except ValueError:
                if via_config and not sep_valid:
                    classes.add("invalid-config-separator-rejected")  # rejecting it is as good as ignoring it
                    return True, classes
                raise
        finally:
            if ctx:
                ctx.__exit__(None, None, None)
        # replacement orders (created by the execution layer when an order is re-priced) are orders of the run too
        for s_, o_ in list(orders[:: max(1, len(orders) // 10)][:10]):
            r1 = o_.trade.create_order_replacement(o_, 3.0, 1.0, _dt.datetime.utcnow())
            r2 = o_.trade.create_order_replacement(r1, 3.5, 1.0, _dt.datetime.utcnow())
            orders += [(s_, r1), (s_, r2)]
            classes.add("replacement-orders")
        refs = [o.customer_order_ref for _, o in orders]
        for (s, o), ref in zip(orders, refs):
            if len(ref) > 32:
                raise Violation("reference-too-long", (), "len %d for strategy name of length %d: %r" % (len(ref), len(s.name), ref), c)
            bad = set(ref) - VALID
            if bad:
                raise Violation("reference-invalid-characters", (), "characters %r in %r" % (bad, ref), c)
        if len(set(refs)) != len(refs):
            raise Violation("reference-not-unique", ("single-thread",), "%d references, %d distinct" % (len(refs), len(set(refs))), c)
        if len(set(o.id for _, o in orders)) != len(orders):
            raise Violation("order-id-not-unique", ("single-thread",), "duplicate order ids", c)
        # ---- round trip through a second framework instance
        known = strategies[:-1] if c["unknown"] and len(strategies) > 1 else strategies
        fw = Flumine(clients.BetfairClient(betting_client=None, username="rt", order_stream=False))
        sample = orders[:: max(1, len(orders) // 40)][:60]
        cos = [current_order_resource(o.customer_order_ref, 1000 + i, o.market_id, o.selection_id) for i, (s, o) in enumerate(sample)]
        # the exchange keeps the customer reference on the bet that replaces another: some references appear a second
        # time, under a new bet id and with the exchange state of THAT bet (partly matched)
        twins = {}
        if c.get("replaced_twins"):
            for i, (s, o) in list(enumerate(sample))[:: max(1, len(sample) // 5)][:5]:
                twins[o.id] = 5000 + i
                cos.append(current_order_resource(o.customer_order_ref, 5000 + i, o.market_id, o.selection_id, matched=1.5))
            classes.add("reference-shared-by-a-replaced-bet-and-its-replacement")
        co = type("CO", (), {})()
        co.orders = cos
        co.client = fw.clients.get_default()
        ev = events.CurrentOrdersEvent([co])
        # strategies may be added to the running instance in stages: the snapshot (the exchange sends the full image
        # of current orders) is processed after every stage, so references of strategies registered later are first
        # seen while their strategy is still unknown
        stages = max(1, min(c.get("stages", 1), len(known)))
        if stages > 1:
            classes.add("strategies-added-between-snapshots")
        cut = [round(len(known) * (k + 1) / stages) for k in range(stages)]
        done = 0
        for k in range(stages):
            for s in known[done:cut[k]]:
                s2 = BaseStrategy(market_filter={}, name=s.name)
                fw.strategies(s2, fw.clients, fw)
            done = cut[k]
            fw._process_current_orders(ev)
        by_name = {s.name: s for s in fw.strategies}
        adopted = {}
        for m in fw.markets:
            for o in m.blotter:
                adopted[o.id] = o
        for i, (s, o) in enumerate(sample):
            a = adopted.get(o.id)
            if s.name in by_name:
                if a is None:
                    raise Violation("round-trip-lost", (), "reference %r of strategy %r not adopted by the second instance" % (o.customer_order_ref, s.name[:30]), c)
                if a.trade.strategy is not by_name[s.name]:
                    raise Violation("round-trip-wrong-strategy", (), "reference %r attributed to %r, produced by %r" % (
                        o.customer_order_ref, a.trade.strategy.name[:30], s.name[:30]), c)
                # (the adopted order is rebuilt with the default separator; the statement only requires that the
                #  strategy and the order id are recovered, so the separator is not compared)
                if a.id != o.id or a.bet_id != str(1000 + i):
                    raise Violation("round-trip-order-changed", (), "%r -> order id %r (bet %s)" % (o.customer_order_ref, a.id, a.bet_id), c)
                # the order recreated from bet 1000+i carries the exchange state of that bet (nothing matched), not
                # the state of another bet that shares the reference
                if a.size_matched != 0.0:
                    raise Violation("round-trip-state-of-another-bet", ("twin" if o.id in twins else "no-twin",),
                                    "order recreated from bet %s (nothing matched) reports size_matched %s%s" % (
                                        1000 + i, a.size_matched, " - the state of bet %s, which shares the reference" % twins[o.id] if o.id in twins else ""), c)
            else:
                classes.add("unknown-strategy")
                if a is not None:
                    raise Violation("unknown-strategy-adopted", (), "reference of unknown strategy %r attached as %r" % (s.name[:30], a), c)
        # delivering the same snapshot again adds nothing and every reference still resolves to the very order that
        # carries it - also when the market has been closed in between (the settlement update of a closed market)
        n1 = sum(len(m.blotter) for m in fw.markets)
        if c.get("closed"):
            for m in fw.markets:
                m.close_market()
            classes.add("market-closed-before-redelivery")
        fw._process_current_orders(ev)
        if sum(len(m.blotter) for m in fw.markets) != n1:
            raise Violation("adopted-twice", (), "second delivery changed the number of orders %d" % n1, c)
        for m in fw.markets:
            for o in m.blotter:
                if adopted.get(o.id) is not o:
                    raise Violation("adopted-twice", ("another-object", "closed" if c.get("closed") else "open"),
                                    "after the second delivery reference %r belongs to another order object than before" % o.customer_order_ref, c)
        # ---- settlement: the exchange's cleared orders are attached by reference - a record whose reference belongs to
        #      no local order (another instance / an unregistered strategy) is attached to nobody
        from betfairlightweight.resources.bettingresources import ClearedOrders

        def cleared_rec(ref, bet_id, profit):
            return dict(betId=str(bet_id), customerOrderRef=ref, profit=profit, marketId="1.100000000", selectionId=1001, handicap=0, side="BACK",
                        orderType="LIMIT", persistenceType="LAPSE", placedDate="2020-01-01T00:00:00.000Z", settledDate="2020-01-01T00:00:00.000Z",
                        lastMatchedDate="2020-01-01T00:00:00.000Z", betCount=1, priceMatched=2.0, priceRequested=2.0, priceReduced=False,
                        sizeSettled=2.0, betOutcome="WON", eventId="1", eventTypeId="7")

        for m in fw.markets:
            local = list(m.blotter)
            if not local:
                continue
            recs, want = [], {}
            for k, o in enumerate(local[:6]):
                recs.append(cleared_rec(o.customer_order_ref, 5000 + k, float(k + 1)))
                want[o.id] = float(k + 1)
                if k % 2 == 0:  # a foreign record right after a known one
                    recs.append(cleared_rec("ffffffffffff0-9%017d" % k, 9000 + k, -100.0 - k))
            m.blotter.process_cleared_orders(ClearedOrders(moreAvailable=False, clearedOrders=recs))
            for o in local[:6]:
                got = getattr(o.cleared_order, "profit", None) if getattr(o, "cleared_order", None) is not None else None
                if got != want[o.id]:
                    raise Violation("cleared-order-misattributed", (), "order %s (reference %r) carries the cleared record with profit %s, its own record says %s" % (
                        o.id, o.customer_order_ref, got, want[o.id]), c)
            classes.add("cleared-orders-with-foreign-records")
        fw.simulated_execution.shutdown()
        fw.betfair_execution.shutdown()
        fw.betdaq_execution.shutdown()
    nontrivial = any((not n.isascii()) or len(n) > 32 for n in c["names"]) or c["n_orders"] >= 100 or not sep_valid
    if any(len(n) > 32 for n in c["names"]):
        classes.add("name>32")
    if any(not n.isascii() for n in c["names"]):
        classes.add("non-ascii-name")
    if c["n_orders"] >= 100:
        classes.add("orders>=100")
    return nontrivial, classes


# ---- whole simulation runs: several recordings played one after the other (or as an event group) ----------------


@st.composite
def sim_case(draw, tier="quick"):
    """2-3 recordings with the SAME publish times (separate events played one after the other, or one event group):
    the simulated clock runs over the same instants again for each recording, orders are created at the same
    instants in each, some markets create further orders later.  Every order of the run - replacements included -
    carries its own reference."""
    import copy
    from .. import gen, world

    nm = draw(st.integers(2, 3))
    grouped = draw(st.integers(0, 2)) == 0
    spec0 = world.default_market(0, 2, event=0, bsp_market=False)
    n = draw(st.integers(3, 8 if tier == "quick" else 16))
    feats = {"remove": 0, "suspend": 1, "inplay": 1, "books": 3, "trades": 3, "max_dt_ms": 5000}
    steps, states = draw(gen.timeline(spec0, n, feats))
    kw = dict(kinds=("LIMIT",), sp=False, sizes="level")
    common = draw(gen.script(spec0, states, mi=0, max_entries=3, max_ops=3, place_kw=kw))
    markets, script = [], []
    for mi in range(nm):
        spec = world.default_market(mi, 2, event=0 if grouped else mi, bsp_market=False)
        spec["steps"] = copy.deepcopy(steps)
        spec["start_pt"] = world.BASE_PT + draw(st.sampled_from([0, 0, 0, 1000]))
        markets.append(spec)
        for e in common:
            script.append(dict(copy.deepcopy(e), m=mi))
        if draw(st.booleans()):
            script += draw(gen.script(spec, states, mi=mi, max_entries=2, max_ops=2, place_kw=kw))
    return {"sim": True, "markets": markets, "event_processing": grouped,
            "strategies": [gen.strategy_spec(draw(st.sampled_from(["A", "strategy-with-a-rather-long-name"])), script=script)],
            "clients": [{"min_bet_validation": False}], "config": {}}


def check_sim(c):
    from ..common import crash_violation

    lb = simlab.run_scenario(c, snapshot_cbs=())
    if lb.error is not None:
        raise crash_violation(lb.error, c, "run-aborted")
    orders = [o for o in lb.all_orders()]
    refs = [o.customer_order_ref for o in orders]
    for o, ref in zip(orders, refs):
        if len(ref) > 32:
            raise Violation("reference-too-long", ("simulation-run",), "len %d: %r" % (len(ref), ref), c)
        bad = set(ref) - VALID
        if bad:
            raise Violation("reference-invalid-characters", ("simulation-run",), "characters %r in %r" % (bad, ref), c)
    if len(set(refs)) != len(refs):
        dup = sorted({r for r in refs if refs.count(r) > 1})[:3]
        where = [(o.market_id, o.selection_id, str(o.date_time_created)) for o in orders if o.customer_order_ref == dup[0]]
        raise Violation("reference-not-unique", ("simulation-run", "event-group" if c.get("event_processing") else "sequential"),
                        "%d orders in the run, %d distinct references; %r is carried by %s" % (len(refs), len(set(refs)), dup[0], where), c)
    if len({o.id for o in orders}) != len(orders):
        raise Violation("order-id-not-unique", ("simulation-run",), "duplicate order ids in one run", c)
    classes = {"simulation-run", "event-group" if c.get("event_processing") else "sequential-recordings"}
    per_market = {}
    for o in orders:
        per_market.setdefault(o.market_id, set()).add(str(o.date_time_created))
    shared = [m for m in per_market if any(per_market[m] & per_market[m2] for m2 in per_market if m2 != m)]
    if shared:
        classes.add("orders-created-at-the-same-simulated-instant-in-different-markets")
    return len(orders) >= 2 and bool(shared), classes


def sub_sim(col, budget, seed, tier, shard, nshards):
    run_given(col, sim_case(tier), check_sim, budget, seed, tier, "sim_runs")


def sub_given(col, budget, seed, tier, shard, nshards):
    run_given(col, case(tier), check, budget, seed, tier, "references")


def sub_threads(col, budget, seed, tier, shard, nshards):
    """bounded stress: ids created concurrently from real threads are pairwise distinct"""
    from flumine import BaseStrategy

    with simlab.clean_config({"simulated": False}):
        s = BaseStrategy(market_filter={}, name="threads")
        for nth in ((2, 8) if tier == "quick" else (2, 4, 8, 16)):
            per = budget // nth
            res = [None] * nth

            def w(i):
                res[i] = [o.customer_order_ref for o in make_orders(s, per, "-")]

            ths = [threading.Thread(target=w, args=(i,)) for i in range(nth)]
            [t.start() for t in ths]
            [t.join() for t in ths]
            refs = [r for part in res for r in part]
            case_ = {"threads": nth, "per_thread": per}
            if len(set(refs)) != len(refs):
                v = Violation("reference-not-unique", ("threads",), "%d references from %d threads, %d distinct" % (len(refs), nth, len(set(refs))), case_)
                if not col.handle(v, case_):
                    col.violations.append(dict(col.last_failure, sub="threads"))
                    col.suppressed.add(v.signature)
            col.record(case_, True, ("threads:%d" % nth,), "threads")
            col.count(len(refs) - 1, "threads")


def sub_betdaq_stream(col, budget, seed, tier, shard, nshards):
    from .. import betdaqstream
    from ..common import run_given as _rg

    _rg(col, betdaqstream.case(), betdaqstream.check, budget, seed, tier, "betdaq_stream")


def subchecks(tier):
    q = tier == "quick"
    return [SubCheck("references", sub_given, 2400 if q else 60000),
            SubCheck("threads", sub_threads, 4000 if q else 50000), SubCheck("sim_runs", sub_sim, 600 if q else 20000),
            SubCheck("betdaq_stream", sub_betdaq_stream, 1200 if q else 40000)]


def replay(c, sub=None):
    if "threads" in c:
        return
    if c.get("sim"):
        check_sim(c)
        return
    if c.get("betdaq"):
        from .. import betdaqstream

        betdaqstream.check(c)
        return
    check(c)
