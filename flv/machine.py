"""E2s state machines: a real FlumineSimulation fed one stream message at a time, with strategy
requests issued between updates.  `SimWorld` holds all logic (so that a recorded trace can be replayed
and minimised without Hypothesis); `make_machine` wraps it into a RuleBasedStateMachine.

A trace is a list of JSON entries {"_": <rule>, ...}; entry 0 is {"_": "init", "cfg": {...}}.
Order / trade references are symbolic (index modulo the strategy's current orders), so every entry is
always applicable - also after other entries were deleted by the minimiser.
"""
import datetime as dt
import itertools

from hypothesis import strategies as st
from hypothesis.stateful import RuleBasedStateMachine, rule, initialize, precondition

from . import gen, simlab, world
from .common import Violation, HarnessError, crash_violation, canon
from .oracles import exposure as X

LIVE = ("PENDING", "CANCELLING", "UPDATING", "REPLACING", "EXECUTABLE")
INFLIGHT = ("CANCELLING", "UPDATING", "REPLACING")
COMPLETE = ("EXECUTION_COMPLETE", "EXPIRED", "VIOLATION")
LEGAL = {
    None: {"PENDING", "VIOLATION"},
    "PENDING": {"EXECUTABLE", "EXECUTION_COMPLETE"},
    "EXECUTABLE": {"CANCELLING", "UPDATING", "REPLACING", "EXECUTION_COMPLETE"},
    "CANCELLING": {"EXECUTABLE", "EXECUTION_COMPLETE"},
    "UPDATING": {"EXECUTABLE", "EXECUTION_COMPLETE"},
    "REPLACING": {"EXECUTABLE", "EXECUTION_COMPLETE"},
}
LIMITS = {"place": 200, "cancel": 60, "update": 60, "replace": 60}


def sname(x):
    return x.name if x is not None else None


class SimWorld:
    def __init__(self, checks, cfg):
        from flumine.order import order as order_mod

        self.checks = set(checks)
        self.cfg = cfg
        self.classes = set()
        self.nontrivial = False
        self.tainted = False
        self.closed_market = False
        spec = dict(cfg["market"])
        spec["steps"] = None
        self.spec = spec
        sc = {"markets": [spec], "strategies": cfg["strategies"], "clients": cfg["clients"], "config": cfg.get("config", {})}
        self.transitions = []  # (order obj id, prev, new, boundary counter)
        self._orig_update = order_mod.BaseOrder._update_status
        self._order_mod = order_mod
        world_ref = self

        def recording_update(order, status, _orig=self._orig_update):
            prev = order.status
            _orig(order, status)
            world_ref.transitions.append((id(order), sname(prev), sname(status)))

        order_mod.BaseOrder._update_status = recording_update
        try:
            self.s = simlab.Stepper(sc)
        except BaseException:
            order_mod.BaseOrder._update_status = self._orig_update
            raise
        self.lab = self.s.lab
        self.fw = self.s.fw
        self.prices = world.ladder_prices(spec)
        self.n_updates = 0
        self.s.step(0)
        self.n_updates += 1
        # shadow state
        self.shadow_orders = []  # orders accepted by place_order (incl. replacements) in acceptance order
        self.rc_history = {}
        self.replacements = set()
        self.replaced_parents = set()
        self.owner_override = {}  # id(order) -> client it was (re)submitted through, when not the strategy's usual one
        self.true_reset = {}  # (strategy, lookup) -> time the last trade on the runner was observed complete
        self.completed_seen = {}  # id(order) -> (status, size_matched) when first observed complete at a boundary
        self.left_live = set()
        self.requests = []  # per request record
        self.pkg_seen = 0
        self.tx_shadow = {}  # client username -> counts
        self.accepted_log = []
        if cfg.get("custom_control"):
            self._install_custom_control(cfg["custom_control"])
        self.market = self.s.market(0)
        for cl in self.lab.clients:
            self.tx_shadow[cl.username] = {"total": 0, "hour": 0, "hour_key": None}

    # ------------------------------------------------------------------------------------------
    def _install_custom_control(self, cc):
        from flumine.controls import BaseControl

        class Custom(BaseControl):
            NAME = "CUSTOM"

            def _validate(self_, order, package_type):
                if package_type.name.lower() in cc["kinds"] and (order.selection_id % 2 == cc["parity"]):
                    self_._on_error(order, "custom predicate")

        self.fw.add_trading_control(Custom)

    def close(self):
        self._order_mod.BaseOrder._update_status = self._orig_update
        self.s.close()

    def fail(self, clause, facts, msg):
        raise Violation(clause, facts, msg)

    # ------------------------------------------------------------------------------------------
    # applying trace entries
    # ------------------------------------------------------------------------------------------
    def apply(self, e):
        r = e["_"]
        if self.tainted:
            return
        try:
            if r in ("book", "suspend", "open", "inplay", "remove", "close", "reopen"):
                if self.closed_market and r != "reopen":
                    return
                step = {k: v for k, v in e.items() if k != "_"}
                step["k"] = r
                if r == "remove":
                    step["r"] = step.pop("ri", 0)
                self.feed(step)
            elif r == "req":
                self.request(e)
            elif r == "txn":
                self.transaction(e)
            else:
                raise ValueError(r)
        except Violation:
            raise
        except Exception as exc:  # unexpected exception out of repository code = crash finding
            raise crash_violation(exc, None, "crash")
        self.boundary()

    def feed(self, step):
        st_ = step["k"]
        ren = self.s.renderers[0]
        # guard impossible steps
        if st_ == "remove":
            act = [i for i, r in enumerate(ren.defn["runners"]) if r["status"] == "ACTIVE"]
            if len(act) <= 1:
                return
            step = dict(step, r=act[step["r"] % len(act)])
        if st_ == "suspend" and ren.defn["status"] != "OPEN":
            step = dict(step, k="open")
        elif st_ == "open" and ren.defn["status"] != "SUSPENDED":
            step = dict(step, k="suspend")
        if st_ == "inplay" and ren.defn["inPlay"]:
            step = {"k": "book", "dt": step.get("dt", 1000), "rc": []}
        if st_ == "close":
            if ren.defn["status"] != "SUSPENDED":
                self.s.step(0, {"k": "suspend", "dt": 1000, "bump": True})
                self.n_updates += 1
                self.boundary()
            self.closed_market = True
        if st_ == "remove":
            # a withdrawal re-prices matched bets by exchange rule (reduction factor): the worst case of positions the
            # control admitted can worsen afterwards without any new order - the consequence clauses stop there
            self.removal_seen = True
        if st_ == "reopen":
            if not self.closed_market:
                return
            self.closed_market = False  # data for the closed market arrives again (re-settlement): it is open again
            self.classes.add("market-reopened-after-closure")
        self.pre_feed_packages = [p for p in self.fw.handler_queue]
        self.s.step(0, step)
        self.n_updates += 1

    # ------------------------------------------------------------------------------------------
    # requests
    # ------------------------------------------------------------------------------------------
    def strategy(self, si):
        return self.lab.strategies[si % len(self.lab.strategies)]

    def snap(self, order):
        """state that a refused request must leave untouched"""
        if order is None:
            return None
        tr = order.trade
        strat = tr.strategy
        blotter = self.market.blotter
        rc = strat._invested.get(order.lookup)
        return {
            "status": sname(order.status), "log": tuple(sname(x) for x in order.status_log), "update_data": dict(order.update_data),
            "pers": getattr(order.order_type, "persistence_type", None), "price": getattr(order.order_type, "price", None),
            "size": getattr(order.order_type, "size", None), "publish_time": order.publish_time, "mv": order.market_version,
            "bet_id": order.bet_id, "complete": order.complete,
            "buckets": (order.simulated.size_matched, order.simulated.size_cancelled, order.simulated.size_lapsed, order.simulated.size_voided),
            "trade": (sname(tr.status), tuple(sname(x) for x in tr.status_log), tuple(id(o) for o in tr.orders)),
            "in_blotter": order.id in blotter, "blotter_len": len(blotter),
            "views": (
                tuple(id(o) for o in blotter._live_orders),
                tuple(id(o) for o in blotter._strategy_orders.get(strat, ())),
                tuple(id(o) for o in blotter._strategy_selection_orders.get((strat, order.selection_id, order.handicap), ())),
                tuple(id(o) for o in blotter._client_orders.get(order.client, ())),
                tuple(id(o) for o in blotter._trades.get(tr, ())),
            ),
            "runner": None if rc is None else (tuple(rc.trades), tuple(rc.live_trades), rc.invested, rc.datetime_last_placed, rc.datetime_last_reset),
        }

    def snap_new(self, order):
        """what a refused NEW order must leave untouched: its trade, the blotter and the runner accounting"""
        tr = order.trade
        strat = tr.strategy
        blotter = self.market.blotter
        rc = strat._invested.get(order.lookup)
        return {
            "trade": (sname(tr.status), tuple(sname(x) for x in tr.status_log), tuple(id(o) for o in tr.orders)),
            "blotter_len": len(blotter), "live": tuple(id(o) for o in blotter._live_orders),
            "has_trade": blotter.has_trade(tr),
            "runner": None if rc is None else (tuple(rc.trades), tuple(rc.live_trades), rc.invested, rc.datetime_last_placed, rc.datetime_last_reset),
        }

    def guard_ok(self, order, op):
        """the documented acceptance condition of a cancel / update / replace, evaluated before the request"""
        k = op["op"]
        if order.bet_id is None or sname(order.status) != "EXECUTABLE":
            return False
        t = order.order_type.ORDER_TYPE.name
        if k == "cancel":
            if t != "LIMIT":
                return False
            return True
        if k == "update":
            return t == "LIMIT" and order.order_type.persistence_type != op.get("pers", "PERSIST")
        if k == "replace":
            return t in ("LIMIT", "LIMIT_ON_CLOSE")
        return True

    def request(self, e, transaction=None):
        strat = self.strategy(e.get("si", 0))
        op = {k: v for k, v in e.items() if k not in ("_", "si")}
        kind = op["op"]
        market = self.market
        target = None
        if self.cfg.get("no_force"):
            op.pop("force", None)
        if self.cfg.get("no_cooldowns"):
            op.pop("reset_seconds", None)
            op.pop("place_reset_seconds", None)
        if self.cfg.get("discipline") and kind == "place":
            runners = self.spec["runners"]
            rr = runners[op.get("r", 0) % len(runners)]
            lk = (market.market_id, rr["id"], rr.get("hc", 0))
            if any(o.trade.strategy is strat and o.lookup == lk and sname(o.status) in ("PENDING", "REPLACING") for o in self.shadow_orders):
                self.classes.add("skipped-by-discipline")
                return None
        if kind in ("cancel", "update", "replace", "place_existing"):
            pool = self.shadow_pool(strat, op)
            if not pool:
                return None
            target = pool[op.get("o", 0) % len(pool)]
        if self.cfg.get("discipline") and kind == "replace" and target is not None:
            if any(o.trade.strategy is strat and o.lookup == target.lookup and sname(o.status) in ("PENDING", "REPLACING") for o in self.shadow_orders):
                self.classes.add("skipped-by-discipline")
                return None
        before = self.snap(target) if target is not None else None
        guard = self.guard_ok(target, op) if kind in ("cancel", "update", "replace") else None
        if kind == "replace" and target is not None:
            cur = getattr(target.order_type, "price", None)
            try:
                i = self.prices.index(cur)
            except ValueError:
                i = 50
            new_price = self.prices[max(0, min(len(self.prices) - 1, i + op.get("ticks", 1)))]
            guard = guard and new_price != cur
            op = dict(op, tick=self.prices.index(new_price))
        if kind == "cancel" and target is not None and op.get("red") is not None and guard:
            red = round(max(target.size_remaining, 0.01) * op["red"], 2) or 0.01
            guard = guard and not (target.size_remaining - red < 0)
        n_pk = len(self.lab.packages)
        n_ops = len(strat.op_results)
        via_client = None  # set when the request is routed through a client other than the strategy's usual one
        if kind == "resubmit" and self.cfg.get("discipline"):
            return None  # (acknowledgement discipline is modelled for fresh placements only)
        if kind == "resubmit":
            # an order that a control refused (VIOLATION, never sent, not in the blotter) is submitted again, through
            # the strategy's usual client or - account fail-over - through another one; judged like a placement
            from flumine.exceptions import FlumineException

            refused = [o for o in strat.my_orders if o.status is not None and sname(o.status) == "VIOLATION" and o.id not in market.blotter
                       and o.market_id == market.market_id]
            if not refused:
                return None
            target = refused[op.get("o", 0) % len(refused)]
            ci = strat.sspec.get("client", 0)
            if op.get("other_client") and len(self.lab.clients) > 1:
                ci = (ci + 1) % len(self.lab.clients)
            client = self.lab.clients[ci]
            via_client = client
            before = self.snap_new(target)
            res = simlab.OpResult()
            res.op, res.order, res.target, res.error, res.result = op, target, None, None, None
            try:
                res.result = market.place_order(target, client=client)
            except FlumineException as ex:
                res.error = "%s: %s" % (type(ex).__name__, ex)
            kind = "place"
            op = dict(op, op="place", r=[i for i, r_ in enumerate(self.spec["runners"]) if (r_["id"], r_.get("hc", 0)) == (target.selection_id, target.handicap)][0],
                      side=target.side, type={"LIMIT": "LIMIT", "LIMIT_ON_CLOSE": "LOC", "MARKET_ON_CLOSE": "MOC"}[target.order_type.ORDER_TYPE.name])
            if res.result is True and not res.error:
                self.classes.add("refused-order-resubmitted" + ("-through-another-client" if ci != strat.sspec.get("client", 0) else ""))
                if ci != strat.sspec.get("client", 0):
                    self.owner_override[id(target)] = client
                    self.nontrivial = True
            target = None
        elif kind == "place_existing":
            # a strategy error: placing an order object a second time
            from flumine.exceptions import FlumineException

            res = simlab.OpResult()
            res.op, res.order, res.target, res.error, res.result = op, None, target, None, None
            try:
                # (same client as the first time: re-placing through another client is a different mistake)
                kw_ = {"force": True} if op.get("force") else {}  # forcing skips the controls, nothing else
                res.result = market.place_order(target, client=target.client, **kw_) if transaction is None else transaction.place_order(target, **kw_)
            except FlumineException as ex:
                res.error = "%s: %s" % (type(ex).__name__, ex)
        else:
            # the script interpreter resolves `o` modulo the strategy's orders: pin it to our target
            run_op = op
            if target is not None:
                run_op = op = dict(op, o=strat.my_orders.index(target))
            if kind == "place":
                new_order = strat.build_order(market, op)
                before = self.snap_new(new_order)
                run_op = dict(op, _prebuilt=new_order)
            strat.run_ops(market, market.market_book, [run_op], 0, self.n_updates, transaction=transaction)
            res = strat.op_results[-1]
            res.op = op
        new_pk = self.lab.packages[n_pk:]
        rec = {"kind": kind, "op": op, "res": res, "target": target, "before": before, "guard": guard,
               "order": res.order if kind == "place" else target, "accepted": res.result is True and not res.error,
               "force": bool(op.get("force")), "new_packages": new_pk, "in_txn": transaction is not None, "via_client": via_client}
        self.requests.append(rec)
        self.judge_request(rec)
        return rec

    def shadow_pool(self, strat, op):
        sel = op.get("pool", "any")
        orders = [o for o in strat.my_orders if o.status is not None and sname(o.status) != "VIOLATION"]
        if sel == "live":
            live = [o for o in orders if not o.complete]
            return live or orders
        if sel == "exec":
            ex = [o for o in orders if sname(o.status) == "EXECUTABLE"]
            return ex or orders
        return orders

    # ------------------------------------------------------------------------------------------
    def judge_request(self, rec):
        kind, res, order = rec["kind"], rec["res"], rec["order"]
        op = rec["op"]
        if rec["accepted"]:
            if kind == "place":
                self.shadow_orders.append(order)
            self.accepted_log.append(rec)
        if "noeffect" in self.checks:
            self.check_no_effect(rec)
            if rec["in_txn"] and rec["accepted"] and kind in ("cancel", "update", "replace") and order is not None and id(order) in self.owner_override:
                txn_client = self.lab.clients[order.trade.strategy.sspec.get("client", 0)]
                if self.owner_override[id(order)] is not txn_client:
                    self.fail("request-accepted-in-another-clients-transaction", (kind, "forced" if rec["force"] else "plain"),
                              "%s of an order held through client %s accepted inside a transaction of client %s" % (
                                  kind, self.owner_override[id(order)].username, txn_client.username))
        if "lifecycle" in self.checks and kind in ("cancel", "update", "replace") and order is not None:
            if rec["accepted"] and not rec["guard"]:
                self.fail("request-accepted-in-wrong-state", (kind, rec["before"]["status"], order.order_type.ORDER_TYPE.name),
                          "%s accepted although the order was %s (bet id %s, type %s, op %s)" % (
                              kind, rec["before"]["status"], rec["before"]["bet_id"], order.order_type.ORDER_TYPE.name, op))
            if rec["guard"] and rec["force"] and not rec["accepted"]:
                self.fail("forced-request-refused", (kind,), "forced %s on an executable order refused: %s %s" % (kind, res.result, res.error))
            if not rec["guard"] and not res.error and res.result is not False:
                self.fail("request-not-rejected", (kind, rec["before"]["status"]), "result %r" % (res.result,))
            if rec["before"]["status"] in INFLIGHT + ("PENDING",):
                self.classes.add("request-while-in-flight")
                self.nontrivial = True
        if "exposure" in self.checks and kind in ("place", "replace") and order is not None and not rec["force"]:
            self.check_exposure_decision(rec)
        if "trades" in self.checks and kind == "place" and order is not None and not rec["force"]:
            self.check_trade_limits(rec)
        if "counters" in self.checks and order is not None:
            self.check_tx_decision(rec)

    def check_no_effect(self, rec):
        kind, res, order = rec["kind"], rec["res"], rec["order"]
        refused = not rec["accepted"]
        if not refused:
            # accepted: exactly one package now (implicit transaction) or queued in the open transaction
            if not rec["in_txn"]:
                n = sum(1 for p in rec["new_packages"] for o in p._orders if o is order)
                if n != 1 or len(rec["new_packages"]) != 1:
                    self.fail("accepted-request-not-sent-once", (kind,), "%d packages created, order present %d times" % (len(rec["new_packages"]), n))
                p = rec["new_packages"][0]
                exp_type = {"place": "PLACE", "cancel": "CANCEL", "update": "UPDATE", "replace": "REPLACE"}[kind]
                if p.package_type.name != exp_type:
                    self.fail("package-kind", (kind,), "package type %s for a %s request" % (p.package_type.name, kind))
            return
        if rec["new_packages"] and not rec["in_txn"]:
            self.fail("refused-request-sent", (kind,), "a refused %s created %d packages" % (kind, len(rec["new_packages"])))
        if order is None:
            return
        how = "raised:" + res.error.split(":")[0] if res.error else "returned-false"
        if kind == "place":
            st_ = sname(order.status)
            if st_ != "VIOLATION" or order.id in self.market.blotter:
                self.fail("refused-new-order-state", (how,), "refused new order has status %s, in blotter %s (%s)" % (st_, order.id in self.market.blotter, order.violation_msg))
            after = self.snap_new(order)
            before = rec["before"]
            if before is not None and after != before:
                # a runner context object may be created (empty) by the validation itself
                if not (before["runner"] is None and after["runner"] == ((), (), False, None, None) and
                        {k: v for k, v in after.items() if k != "runner"} == {k: v for k, v in before.items() if k != "runner"}):
                    diff = {k: (before[k], after[k]) for k in before if before[k] != after[k]}
                    self.fail("refused-request-changed-state", ("place", "new", how), "refused new order changed %s (%s)" % (diff, order.violation_msg))
            self.classes.add("refused:place")
            return
        after = self.snap(order)
        before = rec["before"]
        if after != before:
            diff = {k: (before[k], after[k]) for k in before if before[k] != after[k]}
            self.fail("refused-request-changed-state", (kind, before["status"], how),
                      "refused %s (%s) changed %s" % (kind, res.error or "control refusal", diff))
        self.classes.add("refused:%s:%s" % (kind, before["status"]))
        self.nontrivial = True

    # ---- C01 -----------------------------------------------------------------------------------
    def position_pairs(self, strat, lookup):
        """independent description of the acknowledged position of a strategy on a runner: [(order, position)]"""
        out = []
        for o in self.shadow_orders:
            if o.trade.strategy is not strat or o.lookup != lookup:
                continue
            st_ = sname(o.status)
            if st_ in ("PENDING", "VIOLATION", "EXPIRED"):
                continue  # unacknowledged orders are excluded by design
            t = o.order_type.ORDER_TYPE.name
            if t != "LIMIT":
                if o.complete and not o.simulated.size_matched:
                    continue  # a starting-price order that ended without a bet (voided with its runner, never reconciled)
                out.append((o, {"side": o.side, "kind": "SP", "liability": o.order_type.liability}))
                continue
            line = self.spec.get("ladder", {}).get("type") == "LINE_RANGE"  # the market's ladder, not the order's attribute
            s = o.simulated
            rem = s.size_remaining
            out.append((o, {"side": o.side, "kind": "LIMIT", "fills": [(m[1], m[2]) for m in s.matched],
                            "open": (o.order_type.price, rem) if (not o.complete and rem > 0) else None, "line": line}))
        return out

    def positions(self, strat, lookup, exclude=None):
        return [p for o, p in self.position_pairs(strat, lookup) if o is not exclude]

    def new_position(self, order, price=None):
        t = order.order_type.ORDER_TYPE.name
        if t != "LIMIT":
            return {"side": order.side, "kind": "SP", "liability": order.order_type.liability}
        return {"side": order.side, "kind": "LIMIT", "fills": [], "open": (price if price is not None else order.order_type.price, order.order_type.size),
                "line": self.spec.get("ladder", {}).get("type") == "LINE_RANGE"}

    def check_exposure_decision(self, rec):
        order, kind = rec["order"], rec["kind"]
        strat = order.trade.strategy
        if not rec["accepted"]:
            if kind == "place" and sname(order.status) == "VIOLATION" and order.violation_msg and "exposure" in order.violation_msg.lower():
                self.classes.add("refused-by-exposure")
                self.refusals_by_exposure = getattr(self, "refusals_by_exposure", 0) + 1
            return
        if kind == "replace":
            if order.order_type.ORDER_TYPE.name != "LIMIT":
                return
            new_price = self.prices[rec["op"]["tick"]]
            # the replacement rests with the current remainder at the new price
            newpos = {"side": order.side, "kind": "LIMIT", "fills": [], "open": (new_price, order.simulated.size_remaining),
                      "line": self.spec.get("ladder", {}).get("type") == "LINE_RANGE"}
            # the replaced order's remainder is taken out (it is cancelled by the replace), its fills stay
            prior = [dict(p, open=None) if o is order else p for o, p in self.position_pairs(strat, order.lookup)]
            self.classes.add("accepted-replace")
        else:
            newpos = self.new_position(order)
            prior = [p for p in self.positions(strat, order.lookup, exclude=order)]
        tol = 0.011 + 0.005 * sum(s for p in prior if p["kind"] == "LIMIT" for _, s in p["fills"])
        # own worst case
        own = X.selection_worst([newpos])
        own_loss = -min(own["win"], own["lose"])
        if strat.max_order_exposure is not None and own_loss > strat.max_order_exposure + tol:
            self.fail("order-limit-exceeded", (kind, order.order_type.ORDER_TYPE.name, order.side),
                      "accepted %s with own worst-case loss %.2f > max_order_exposure %s (%s)" % (kind, own_loss, strat.max_order_exposure, newpos))
        allp = prior + [newpos]
        w = X.selection_worst(allp)
        w0 = X.selection_worst(prior)
        # the decision is judged on the outcome the new order can worsen (BACK: selection loses, LAY: it wins);
        # an excess on the other side can only stem from earlier (e.g. unacknowledged) orders, never from this one
        side_key = "lose" if order.side == "BACK" else "win"
        sel_loss = -w[side_key]
        if kind == "replace":
            sel_loss = -min(w["win"], w["lose"]) if -min(w["win"], w["lose"]) > -min(w0["win"], w0["lose"]) + 1e-9 else sel_loss
        if strat.max_selection_exposure is not None and sel_loss > strat.max_selection_exposure + tol and -w[side_key] > -w0[side_key] - 1e-9:
            self.fail("selection-limit-exceeded", (kind, order.order_type.ORDER_TYPE.name, order.side),
                      "accepted %s: worst-case loss on the selection %.2f > max_selection_exposure %s; prior %s new %s" % (
                          kind, sel_loss, strat.max_selection_exposure, prior, newpos))
        if strat.max_market_exposure is not None:
            per = []
            lookups = {o.lookup for o in self.shadow_orders if o.trade.strategy is strat} | {order.lookup}
            for lk in sorted(lookups):
                if lk == order.lookup:
                    ww = w
                else:
                    ww = X.selection_worst(self.positions(strat, lk))
                per.append((ww["win"], ww["lose"]))
            mb = self.market.market_book
            mw = X.market_worst(per, max(mb.number_of_active_runners, len(per)), mb.number_of_winners)
            per0 = [((w0["win"], w0["lose"]) if lk == order.lookup else p) for lk, p in zip(sorted(lookups), per)]
            mw0 = X.market_worst(per0, max(mb.number_of_active_runners, len(per)), mb.number_of_winners)
            if -mw > strat.max_market_exposure + tol * len(per) and mw < mw0 - 1e-9:
                self.fail("market-limit-exceeded", (kind, order.order_type.ORDER_TYPE.name),
                          "accepted %s: worst-case market loss %.2f > max_market_exposure %s (per runner %s)" % (kind, -mw, strat.max_market_exposure, per))
            self.classes.add("market-limit-active")
        if prior:
            self.classes.add("accepted-with-prior-position")
            if getattr(self, "refusals_by_exposure", 0):
                self.nontrivial = True
        if newpos["kind"] == "SP":
            self.classes.add("accepted-sp-order")

    # ---- C10 -----------------------------------------------------------------------------------
    def check_trade_limits(self, rec):
        order = rec["order"]
        strat = order.trade.strategy
        if not rec["accepted"]:
            msg = order.violation_msg or ""
            if "validate_order failed" in msg:
                self.classes.add("refused-by-trade-limit")
                self.nontrivial = True
                hist = self.rc_history.get((id(strat), order.lookup), {})
                if "reset_elapsed_seconds" in msg:
                    lr = hist.get("reset")
                    if lr is None or (dt.datetime.utcnow() - lr).total_seconds() >= order.trade.reset_seconds + 1e-9:
                        recompleted = any(sum(1 for x in t.status_log if sname(x) == "COMPLETE") >= 2 for t in self.placed_trades(strat, order.lookup))
                        self.fail("cool-down-without-completed-trade", ("trade-recompleted-by-late-response" if recompleted else "other",),
                                  "refused (%s) but the last trade completion on the runner was %s" % (msg, lr))
                # never locked out of a runner whose orders have all completed
                if "live_trade_count" in msg:
                    mine = [o for o in self.shadow_orders if o.trade.strategy is strat and o.lookup == order.lookup]
                    if mine and all(o.complete for o in mine):
                        self.fail("locked-out-of-runner", (), "new order refused (%s) although every order on the runner is complete: %s" % (
                            msg, [(sname(o.status), sname(o.trade.status)) for o in mine]))
            return
        # accepted: limits respected (counting this order's trade); forced placements bypass the limits by design,
        # so a runner that has seen one is not judged
        if any(r["force"] and r["accepted"] and r["kind"] == "place" and r["order"].lookup == order.lookup and r["order"].trade.strategy is strat
               for r in self.accepted_log):
            self.classes.add("forced-placement-on-runner")
            return
        trades = self.placed_trades(strat, order.lookup)
        live = [t for t in trades if any(not o.complete for o in t.orders if o.status is not None)]
        if len(trades) > strat.max_trade_count:
            self.fail("max-trade-count-exceeded", (), "%d trades placed on the runner, max_trade_count %s" % (len(trades), strat.max_trade_count))
        if len(live) > strat.max_live_trade_count:
            self.fail("max-live-trade-count-exceeded", (), "%d live trades on the runner, max_live_trade_count %s: %s" % (
                len(live), strat.max_live_trade_count, [[(sname(o.status)) for o in t.orders] for t in live]))
        # cool-down periods
        now = dt.datetime.utcnow()
        tr = order.trade
        already_live = strat.multi_order_trades and any(o is not order and not o.complete and o.status is not None for o in tr.orders)
        if not already_live:
            hist = self.rc_history.get((id(strat), order.lookup), {})
            lp, lr = hist.get("placed"), hist.get("reset")
            if lp is not None and tr.place_reset_seconds and (now - lp).total_seconds() < tr.place_reset_seconds - 1e-9:
                self.fail("place-cool-down-ignored", ("elapsed=%.3f" % (now - lp).total_seconds(),),
                          "order accepted %.3fs after the previous placement, place_reset_seconds %s" % ((now - lp).total_seconds(), tr.place_reset_seconds))
            if lr is not None and tr.reset_seconds and (now - lr).total_seconds() < tr.reset_seconds - 1e-9:
                self.fail("reset-cool-down-ignored", ("elapsed=%.3f" % (now - lr).total_seconds(),),
                          "order accepted %.3fs after a trade completed, reset_seconds %s" % ((now - lr).total_seconds(), tr.reset_seconds))
        self.rc_history.setdefault((id(strat), order.lookup), {})["placed"] = now

    def placed_trades(self, strat, lookup):
        seen, out = set(), []
        for o in self.shadow_orders:
            if o.trade.strategy is strat and o.lookup == lookup and id(o.trade) not in seen:
                seen.add(id(o.trade))
                out.append(o.trade)
        return out

    # ---- C18 -----------------------------------------------------------------------------------
    def check_tx_decision(self, rec):
        pass  # implemented in props/c18 via subclass hook

    # ------------------------------------------------------------------------------------------
    # transactions (C02 bulk)
    # ------------------------------------------------------------------------------------------
    def transaction(self, e):
        strat = self.strategy(e.get("si", 0))
        client = self.lab.clients[strat.sspec.get("client", 0)]
        market = self.market
        n_pk = len(self.lab.packages)
        accepted = []  # (kind, order, market_version)
        executes = 0
        class _Escape(Exception):
            pass

        def maybe_escape(rec_):
            # a strategy that does not catch the error of a rejected request lets it leave the `with` block
            if e.get("raise_through") and rec_ is not None and rec_["res"].error:
                self.classes.add("transaction-left-by-exception")
                raise _Escape()

        try:
          with market.transaction(client=client) as t:
            txn = t
            for item in e["items"]:
                  if item["op"] == "execute":
                      t.execute()
                      executes += 1
                      continue
                  if item["op"] == "bulk_place":
                      for i in range(item["n"]):
                          tick = item["tick"] + (i % 7)
                          op = {"op": "place", "r": item.get("r", 0), "side": item.get("side", "BACK"), "type": "LIMIT", "tick": tick,
                                "size": 2.0, "pers": "LAPSE", "mv": item.get("mvs", [None])[i % len(item.get("mvs", [None]))]}
                          rec = self.request({"_": "req", "si": e.get("si", 0), **op}, transaction=t)
                          if rec and rec["accepted"]:
                              accepted.append(("place", rec["order"], self._mv(op.get("mv"))))
                  elif item["op"] == "bulk":
                      pool = [o for o in strat.my_orders if sname(o.status) == "EXECUTABLE"][: item["n"]]
                      for j, o in enumerate(pool):
                          op = {"op": item["kind"], "o": strat.my_orders.index(o)}
                          if item["kind"] == "replace":
                              op["ticks"] = item.get("ticks", 3)
                          if item["kind"] == "update":
                              op["pers"] = "PERSIST" if o.order_type.persistence_type != "PERSIST" else "LAPSE"
                          rec = self.request({"_": "req", "si": e.get("si", 0), **op, "pool": "any"}, transaction=t)
                          if rec and rec["accepted"]:
                              accepted.append((item["kind"], rec["order"], None))
                  else:
                      rec = self.request({"_": "req", "si": e.get("si", 0), **item}, transaction=t)
                      if rec and rec["accepted"]:
                          accepted.append((item["op"], rec["order"], self._mv(item.get("mv")) if item["op"] in ("place", "replace") else None))
                      maybe_escape(rec)
        except _Escape:
            pass
        pk = self.lab.packages[n_pk:]
        if "noeffect" in self.checks:
            self.check_packages(accepted, pk, txn)
        if len(pk) > 1:
            self.classes.add("multi-package-transaction")
            self.nontrivial = True

    def _mv(self, mv):
        if mv == "cur":
            return self.market.market_book.version
        if mv == "stale":
            return self.market.market_book.version - 1
        return None

    def check_packages(self, accepted, pk, txn):
        kinds = {"place": "PLACE", "cancel": "CANCEL", "update": "UPDATE", "replace": "REPLACE"}
        sent = {}
        for p in pk:
            k = p.package_type.name
            lim = LIMITS[k.lower()]
            if len(p._orders) > lim:
                self.fail("package-over-limit", (k,), "%d instructions in one %s package (limit %d)" % (len(p._orders), k, lim))
            if len(p._orders) == 0:
                self.fail("empty-package", (k,), "empty %s package" % k)
            for o in p._orders:
                sent.setdefault((k, id(o)), []).append(p)
        for kind, o, mv in accepted:
            ps = sent.pop((kinds[kind], id(o)), [])
            if len(ps) != 1:
                self.fail("accepted-request-not-sent-once", (kind, "transaction"), "%s request for an order is in %d packages" % (kind, len(ps)))
            pmv = ps[0]._market_version
            if kind in ("place", "replace") and pmv != mv:
                self.fail("package-market-version", (kind,), "order requested with market_version %s sent in a package with %s" % (mv, pmv))
        if sent:
            self.fail("unrequested-order-in-package", (), "packages contain %d orders that were not accepted requests" % len(sent))
        # request order preserved per (kind, version)
        for k in set(kinds.values()):
            for mv in {p._market_version for p in pk if p.package_type.name == k}:
                got = [id(o) for p in pk if p.package_type.name == k and p._market_version == mv for o in p._orders]
                exp = [id(o) for kind, o, m in accepted if kinds[kind] == k and (m if kind in ("place", "replace") else None) == mv]
                if got != exp:
                    self.fail("package-order", (k,), "orders in %s packages are not in request order" % k)
        if txn._pending_place or txn._pending_cancel or txn._pending_update or txn._pending_replace or txn._pending_orders:
            self.fail("transaction-left-pending", (), "pending lists not empty after the transaction ended")

    # ------------------------------------------------------------------------------------------
    # invariants at every boundary
    # ------------------------------------------------------------------------------------------
    def boundary(self):
        if self.tainted:
            return
        blotter = self.market.blotter if self.market is not None else None
        if blotter is None:
            self.market = self.s.market(0)
            blotter = self.market.blotter
        # replacement orders enter the shadow list when they appear in the blotter
        known = {id(o) for o in self.shadow_orders}
        for o in blotter:
            if id(o) not in known:
                self.shadow_orders.append(o)
                self.replacements.add(id(o))
                self.classes.add("replacement-order")
                # the replacement belongs to the client of the order it replaces: the order of its trade that went
                # through REPLACING and has not been matched with a replacement yet
                for x in o.trade.orders:
                    if x is not o and id(x) not in self.replaced_parents and "REPLACING" in [sname(y) for y in x.status_log]:
                        self.replaced_parents.add(id(x))
                        if id(x) in self.owner_override:
                            self.owner_override[id(o)] = self.owner_override[id(x)]
                        break
        if "lifecycle" in self.checks:
            self.inv_lifecycle()
        if "trades" in self.checks:
            self.inv_trades()
        if "blotter" in self.checks:
            self.inv_blotter()
        if "exposure" in self.checks:
            self.inv_exposure_consequence()
            self.check_realised()
        self.after_boundary()

    def after_boundary(self):
        pass

    def inv_lifecycle(self):
        for (oid, prev, new) in self.transitions:
            if prev == new:
                continue
            if new not in LEGAL.get(prev, set()):
                self.fail("illegal-transition", (str(prev), str(new)), "order status went %s -> %s" % (prev, new))
        self.transitions.clear()
        queue = list(self.fw.handler_queue)
        n_removed = sum(1 for r in self.s.renderers[0].defn["runners"] if r["status"] == "REMOVED")
        removal_now = n_removed != getattr(self, "_n_removed", 0)
        self._n_removed = n_removed
        for o in self.shadow_orders:
            n = sum(1 for p in queue for x in p._orders if x is o)
            if n > 1:
                self.fail("two-operations-in-flight", (sname(o.status),), "order is in %d undelivered packages (%s)" % (n, [p.package_type.name for p in queue if o in p._orders]))
            st_ = sname(o.status)
            if o.bet_id is None and o.size_matched:
                # an order that never reached the exchange (placement refused / failed: no bet id) cannot be matched;
                # a complete order that is matched afterwards inside one update shows up here, not as a transition
                self.fail("matched-without-bet-id", (st_, o.order_type.ORDER_TYPE.name),
                          "order without a bet id has size_matched %s (log %s)" % (o.size_matched, [sname(x) for x in o.status_log]))
            prev = self.completed_seen.get(id(o))
            if prev is not None:
                if st_ in LIVE:
                    self.fail("completed-order-live-again", (prev[0], st_), "order observed %s is now %s (log %s)" % (prev[0], st_, [sname(x) for x in o.status_log]))
                if abs(o.size_matched - prev[1]) > 1e-9 and not self._runner_removed(o):
                    if removal_now:
                        # C09: a removal re-sizes market-on-close lay bets on the other runners (and voids its own)
                        self.completed_seen[id(o)] = (prev[0], o.size_matched, prev[2])
                    else:
                        self.fail("matched-size-changed-after-completion", (st_,), "size_matched %s -> %s after completion" % (prev[1], o.size_matched))
                if st_ in INFLIGHT or prev[2]:
                    pass
            elif o.complete and "PENDING" in [sname(x) for x in o.status_log]:
                inflight_before = any(sname(x) in INFLIGHT for x in o.status_log[-2:-1])
                self.completed_seen[id(o)] = (st_, o.size_matched, inflight_before)
                if any(x is o for p in queue for x in p._orders):
                    self.classes.add("completed-with-request-in-flight")
                    self.nontrivial = True

    def _runner_removed(self, o):
        ren = self.s.renderers[0]
        for r in ren.defn["runners"]:
            if r["id"] == o.selection_id and r["status"] == "REMOVED":
                return True
        return False

    def inv_trades(self):
        if self.closed_market:
            return  # runner accounting is released at closure (C20)
        for strat in self.lab.strategies:
            lookups = {o.lookup for o in self.shadow_orders if o.trade.strategy is strat}
            for lk in lookups:
                rc = strat._invested.get(lk)
                if rc is None:
                    if self.closed_market:
                        continue  # released at closure (C20)
                    self.fail("runner-context-missing", (), "no runner context for %s" % (lk,))
                trades = self.placed_trades(strat, lk)
                exp_live = [t.id for t in trades if any(not o.complete for o in t.orders if o.status is not None)]
                exp_all = [t.id for t in trades]
                if sorted(rc.trades) != sorted(exp_all):
                    self.fail("trade-count-mismatch", (), "runner context counts %d trades, %d distinct trades were placed" % (len(rc.trades), len(exp_all)))
                if sorted(rc.live_trades) != sorted(exp_live):
                    kindf = "charged-but-complete" if len(rc.live_trades) > len(exp_live) else "live-but-not-charged"
                    odd = [t for t in trades if (t.id in rc.live_trades) != (t.id in exp_live)]
                    if odd and all(sum(1 for x in t.status_log if sname(x) == "COMPLETE") >= 1 and sname(t.status) == "COMPLETE" for t in odd) and kindf == "charged-but-complete":
                        undelivered = {id(o) for pk in self.fw.handler_queue for o in getattr(pk, "_orders", ())}
                        if all(any(id(o) in undelivered for o in t.orders) for t in odd):
                            # an order added to a completed trade was voided / lapsed while its placement was still
                            # in flight: the trade is released when that placement's response is processed
                            self.classes.add("order-added-to-completed-trade-finished-before-its-placement-response")
                            continue
                        kindf = "charged-but-complete,order-added-to-completed-trade-finished-before-its-placement-response"
                    self.fail("live-trade-mismatch", (kindf,), "runner context live trades %d, trades with a live order %d; trades: %s" % (
                        len(rc.live_trades), len(exp_live), [(sname(t.status), [sname(o.status) for o in t.orders]) for t in trades]))
                for t in trades:
                    if t.pending_orders:
                        continue
                    all_done = all(o.complete for o in t.orders if o.status is not None)
                    awaiting_ack_only = all(o.complete or sname(o.status) == "PENDING" for o in t.orders if o.status is not None)
                    if sname(t.status) == "COMPLETE" and not all_done and awaiting_ack_only:
                        # a further order was placed in a trade that had completed: the trade is made live again
                        # by the placement response (it is charged as live in the runner context meanwhile)
                        self.classes.add("order-added-to-completed-trade")
                        continue
                    if (sname(t.status) == "COMPLETE") != all_done:
                        self.fail("trade-status-mismatch", (sname(t.status), "all-complete" if all_done else "has-live-order"),
                                  "trade %s with orders %s" % (sname(t.status), [sname(o.status) for o in t.orders]))
                    if sname(t.status) == "PENDING":
                        self.fail("trade-left-pending", (), "trade PENDING outside a response handler")
                    n_complete = sum(1 for x in t.status_log if sname(x) == "COMPLETE")
                    if len(t.orders) >= 2 and n_complete:
                        self.classes.add("multi-order-trade-completed")
                        self.nontrivial = True
                # remember (independently of the runner context) when a trade on the runner was seen to complete
                for t in trades:
                    done = all(o.complete for o in t.orders if o.status is not None)
                    key = (id(t), "done")
                    if done and not self.rc_history.get(key):
                        self.rc_history.setdefault((id(strat), lk), {})["reset"] = dt.datetime.utcnow()
                    self.rc_history[key] = done

    def inv_blotter(self):
        blotter = self.market.blotter
        from flumine.order.order import OrderStatus

        ids = [id(o) for o in blotter]
        if len(ids) != len(set(ids)) or sorted(ids) != sorted(id(o) for o in self.shadow_orders):
            self.fail("blotter-membership", (), "blotter holds %d orders, %d were placed" % (len(ids), len(self.shadow_orders)))
        strategies = {o.trade.strategy for o in self.shadow_orders}
        clients = {o.client for o in self.shadow_orders}
        for o in self.shadow_orders:
            strat = o.trade.strategy
            owner = self.lab.clients[strat.sspec.get("client", 0)]  # the client the strategy trades through
            if id(o) in self.owner_override:
                owner = self.owner_override[id(o)]
            if o.client is not owner:
                self.fail("order-client", ("replacement" if id(o) in self.replacements else "placed",),
                          "order belongs to client %s but its strategy trades through %s" % (o.client.username if o.client else None, owner.username))
            views = {
                "strategy_orders": blotter.strategy_orders(strat),
                "strategy_selection_orders": blotter.strategy_selection_orders(strat, o.selection_id, o.handicap),
                "client_orders": blotter.client_orders(owner),
                "client_strategy_orders": blotter.client_strategy_orders(owner, strat),
                "trade": blotter._trades.get(o.trade, []),
            }
            for name, v in views.items():
                c = sum(1 for x in v if x is o)
                if c != 1:
                    self.fail("blotter-view", (name,), "order appears %d times in %s" % (c, name))
            if blotter[o.id] is not o or self.fw.markets.get_order(o.market_id, o.id) is not o:
                self.fail("blotter-lookup", ("id",), "lookup by order id returns another object")
            n_live = sum(1 for x in blotter._live_orders if x is o)
            if not o.complete and n_live == 0:
                self.fail("live-list-missing-live-order", (sname(o.status),), "order %s is not in live_orders (log %s)" % (sname(o.status), [sname(x) for x in o.status_log]))
            if n_live > 1:
                self.fail("blotter-view", ("live_orders",), "order appears %d times in live_orders" % n_live)
            if not any(x is o for x in blotter._live_orders):
                if id(o) not in self.left_live:
                    self.left_live.add(id(o))
                    self.classes.add("order-left-live-list")
                    if len(strategies) > 1 or len(clients) > 1:
                        self.nontrivial = True
            elif id(o) in self.left_live:
                self.fail("order-back-in-live-list", (), "order re-entered live_orders")
        # replacement orders (they enter the blotter with their bet id) are reachable by bet id
        for o in self.shadow_orders:
            if id(o) in self.replacements and o.bet_id is not None:
                got = self.fw.markets.get_order_from_bet_id(o.market_id, o.bet_id)
                if got is not o:
                    self.fail("blotter-lookup", ("bet-id",), "bet id %s of a replacement order resolves to %r" % (o.bet_id, got))
                self.nontrivial = True
        # filters
        statuses = list(OrderStatus)
        present = {o.status for o in self.shadow_orders}
        # every filtered view: (name, query, the shadow orders the unfiltered view holds)
        views = []
        for strat in strategies:
            mine = [o for o in self.shadow_orders if o.trade.strategy is strat]
            views.append(("strategy_orders", (lambda st_, mo, s_=strat: blotter.strategy_orders(s_, order_status=st_, matched_only=mo)), mine))
            for sel, hc in sorted({(o.selection_id, o.handicap) for o in mine}):
                views.append(("strategy_selection_orders",
                              (lambda st_, mo, s_=strat, a=sel, b=hc: blotter.strategy_selection_orders(s_, a, b, order_status=st_, matched_only=mo)),
                              [o for o in mine if (o.selection_id, o.handicap) == (sel, hc)]))
            for cl in clients:
                views.append(("client_strategy_orders",
                              (lambda st_, mo, s_=strat, c_=cl: blotter.client_strategy_orders(c_, s_, order_status=st_, matched_only=mo)),
                              [o for o in mine if o.client is cl]))
        for cl in clients:
            views.append(("client_orders", (lambda st_, mo, c_=cl: blotter.client_orders(c_, order_status=st_, matched_only=mo)),
                          [o for o in self.shadow_orders if o.client is cl]))
        for vi, (name, query, base) in enumerate(views):
            for r in (1, 2):
                for subset in itertools.combinations(statuses, r):
                    if vi and not (present & set(subset)):
                        continue  # (the strategy view is queried with every subset; the others with those that can select something)
                    for mo in (None, True):
                        got = query(list(subset), mo)
                        exp = [o for o in base if o.status in subset and (not mo or o.size_matched > 0)]
                        if sorted(map(id, got)) != sorted(map(id, exp)):
                            self.fail("blotter-filter", ("matched_only" if mo else "status",) + (() if name == "strategy_orders" else (name,)),
                                      "%s filter %s matched_only=%s returned %d orders, expected %d" % (name, [s.name for s in subset], mo, len(got), len(exp)))
            got = query(None, True)
            exp = [o for o in base if o.size_matched > 0]
            if sorted(map(id, got)) != sorted(map(id, exp)):
                self.fail("blotter-filter", ("matched_only-alone",) + (() if name == "strategy_orders" else (name,)),
                          "%s matched_only=True returned %d orders, expected %d" % (name, len(got), len(exp)))

    def inv_exposure_consequence(self):
        """under acknowledgement discipline the worst case on each selection stays within the limit"""
        if not self.cfg.get("discipline") or getattr(self, "removal_seen", False):
            return
        for strat in self.lab.strategies:
            lim = strat.max_selection_exposure
            if lim is None:
                continue
            lookups = {o.lookup for o in self.shadow_orders if o.trade.strategy is strat}
            for lk in lookups:
                ps = self.positions(strat, lk)
                # pending orders count in full here: they were accepted against the limit
                for o in self.shadow_orders:
                    if o.trade.strategy is strat and o.lookup == lk and sname(o.status) == "PENDING":
                        ps.append(self.new_position(o))
                w = X.selection_worst(ps)
                loss = -min(w["win"], w["lose"])
                m = sum(s for p in ps if p["kind"] == "LIMIT" for _, s in p["fills"])
                if loss > lim + 0.011 + 0.006 * m + self.sp_slack(strat, lk):
                    self.fail("selection-loss-can-exceed-limit", (), "worst-case loss %.2f on %s exceeds max_selection_exposure %s; positions %s" % (loss, lk, lim, ps))

    def sp_slack(self, strat, lk):
        return 0.0

    def check_realised(self):
        """after closure: realised loss per selection within the limit (discipline runs only)"""
        if not self.cfg.get("discipline") or not self.closed_market or getattr(self, "removal_seen", False):
            return
        for strat in self.lab.strategies:
            lim = strat.max_selection_exposure
            if lim is None:
                continue
            per = {}
            for o in self.shadow_orders:
                if o.trade.strategy is strat:
                    per.setdefault(o.lookup, []).append(o)
            for lk, orders in per.items():
                pnl = sum(o.profit for o in orders)
                m = sum(o.size_matched for o in orders)
                if pnl < -lim - 0.011 - 0.006 * m:
                    self.fail("realised-loss-exceeds-limit", (), "realised P&L %.2f on %s, max_selection_exposure %s; orders %s" % (
                        pnl, lk, lim, [(o.side, o.order_type.ORDER_TYPE.name, o.size_matched, o.average_price_matched, o.runner_status, o.profit) for o in orders]))
                self.classes.add("realised-checked")

    # ------------------------------------------------------------------------------------------
    def summary(self):
        return self.nontrivial, set(self.classes)


# ------------------------------------------------------------------------------------------
# replay / Hypothesis wrapper
# ------------------------------------------------------------------------------------------


def replay_trace(world_cls, checks, trace):
    w = None
    try:
        w = world_cls(checks, trace[0]["cfg"])
        for e in trace[1:]:
            w.apply(e)
        return w.summary()
    except (Violation, HarnessError):
        raise
    except Exception as exc:
        raise crash_violation(exc, trace, "crash") from exc
    finally:
        if w is not None:
            w.close()


def make_machine(world_cls, checks, cfg_strategy, rule_weights=None):
    """Hypothesis wrapper: generates the config and trace entries; the world executes them."""
    rw = dict(book=4, time=1, suspend=1, inplay=1, remove=1, close=1, place=6, follow=6, place_existing=1, txn=0, bulk=0, resubmit=0)
    rw.update(rule_weights or {})

    class Machine(RuleBasedStateMachine):
        col = None
        sub = None
        tier = "quick"

        def __init__(self):
            super().__init__()
            self.w = None
            self.trace = []
            self.mids = None
            self.books = None
            self.failed = False

        def _do(self, e):
            self.trace.append(e)
            try:
                try:
                    if e["_"] == "init":
                        self.w = world_cls(checks, e["cfg"])
                    else:
                        self.w.apply(e)
                except (Violation, HarnessError):
                    raise
                except Exception as exc:
                    import hypothesis.errors

                    if isinstance(exc, hypothesis.errors.HypothesisException):
                        raise
                    # an unexpected exception out of repository code (a request or an update aborted half-way)
                    v_ = crash_violation(exc, list(self.trace), "crash")
                    raise v_ from exc
            except Violation as v:
                if self.col.handle(v, list(self.trace)):
                    if self.w is not None:
                        self.w.tainted = True
                    return
                self.failed = True
                raise

        @initialize(cfg=cfg_strategy)
        def init(self, cfg):
            self.nr = len(cfg["market"]["runners"])
            self.nt = len(world.ladder_prices(cfg["market"]))
            self.mids = [max(5, min(self.nt - 6, 40 + 30 * i)) for i in range(self.nr)]
            self.books = [([], []) for _ in range(self.nr)]
            self.ns = len(cfg["strategies"])
            self._do({"_": "init", "cfg": cfg})

        # ---- market events
        @precondition(lambda self: rw["book"] > 0)
        @rule(data=st.data())
        def book(self, data):
            d = data.draw
            rcs = []
            for r in sorted(d(st.sets(st.integers(0, self.nr - 1), min_size=1, max_size=2))):
                rc = {"r": r}
                if d(st.integers(0, 2)):
                    if d(st.integers(0, 3)) == 0:
                        self.mids[r] = max(5, min(self.nt - 6, self.mids[r] + d(st.integers(-3, 3))))
                    atb, atl = d(gen.book_side_pair(self.nt, self.mids[r], max_levels=3))
                    rc["atb"], rc["atl"] = atb, atl
                    self.books[r] = (atb, atl)
                if d(st.integers(0, 1)):
                    rc["trd"] = [[max(0, min(self.nt - 1, self.mids[r] + d(st.integers(-4, 4)))), gen.size_c(d, 2, 8000) / 100]
                                 for _ in range(d(st.integers(1, 2)))]
                rcs.append(rc)
            self._do({"_": "book", "dt": d(st.sampled_from(self.dts())), "rc": rcs})

        def dts(self):
            return [1, 50, 130, 200, 300, 1000, 5000]

        # rule selection is uniform over rules: aliases make market updates more frequent than any single request kind
        @precondition(lambda self: rw["book"] > 1)
        @rule(data=st.data())
        def book2(self, data):
            self.book(data)

        @precondition(lambda self: rw["book"] > 2)
        @rule(dt_=st.sampled_from([130, 200, 300, 1000, 5000]))
        def tick(self, dt_):
            self._do({"_": "book", "dt": dt_, "rc": []})

        @precondition(lambda self: rw["suspend"] > 0)
        @rule(bump=st.booleans(), dt_=st.sampled_from([50, 1000]))
        def suspend(self, bump, dt_):
            self._do({"_": "suspend", "dt": dt_, "bump": bump})

        @precondition(lambda self: rw["inplay"] > 0)
        @rule(data=st.data())
        def inplay(self, data):
            d = data.draw
            prices = self.w.prices if self.w else []
            bsp = [round(prices[max(0, min(self.nt - 1, self.mids[r] + d(st.integers(-4, 4))))] + d(st.sampled_from([0, 0.013])), 3)
                   if d(st.integers(0, 5)) else None for r in range(self.nr)]
            self._do({"_": "inplay", "dt": 1000, "bet_delay": d(st.sampled_from([0, 1, 5])), "status": "OPEN", "bump": True, "bsp": bsp})

        @precondition(lambda self: rw.get("overlap_reset", 0) > 0)
        @rule(data=st.data())
        def overlap_reset(self, data):
            """directed (C10): two overlapping trades with a reset cool-down on one runner - the first completes at
            once (a taker), the second rests; a third trade is requested inside the cool-down of the first"""
            d = data.draw
            si = d(st.integers(0, self.ns - 1))
            r = d(st.integers(0, self.nr - 1))
            rs = d(st.sampled_from([5, 30]))
            mid = self.mids[r]
            self._do({"_": "book", "dt": 1000, "rc": [{"r": r, "atb": [[mid - 1, 50.0]], "atl": [[mid + 1, 50.0]]}]})
            self.books[r] = ([[mid - 1, 50.0]], [[mid + 1, 50.0]])
            self._do({"_": "req", "op": "place", "si": si, "r": r, "side": "BACK", "type": "LIMIT", "tick": max(0, mid - 3), "size": 2.0,
                      "pers": "LAPSE", "trade": "new", "reset_seconds": rs})
            self._do({"_": "req", "op": "place", "si": si, "r": r, "side": "BACK", "type": "LIMIT", "tick": min(self.nt - 1, mid + 6), "size": 2.0,
                      "pers": "PERSIST", "trade": "new", "reset_seconds": rs})
            self._do({"_": "book", "dt": 1000, "rc": []})
            self._do({"_": "req", "op": "place", "si": si, "r": r, "side": d(st.sampled_from(["BACK", "LAY"])), "type": "LIMIT", "tick": min(self.nt - 1, mid + 8),
                      "size": 2.0, "pers": "LAPSE", "trade": "new", "reset_seconds": rs})
            self._do({"_": "book", "dt": d(st.sampled_from([200, 1000])), "rc": []})

        @precondition(lambda self: rw.get("overlap_reset", 0) > 0)
        @rule(data=st.data())
        def rejoin_completed_trade(self, data):
            """directed (C10): a trade completes (taker fill or full cancel), another trade then rests on the runner, and
            a further order is requested IN the completed trade - it is a new entry for the limits and cool-downs,
            whatever multi_order_trades says"""
            if not self.w:
                return
            d = data.draw
            si = d(st.integers(0, self.ns - 1))
            r = d(st.integers(0, self.nr - 1))
            mid = self.mids[r]
            idx = len(self.w.lab.strategies[si].my_trades)
            rs = d(st.sampled_from([0, 0, 5, 30]))
            self._do({"_": "book", "dt": 1000, "rc": [{"r": r, "atb": [[mid - 1, 50.0]], "atl": [[mid + 1, 50.0]]}]})
            self.books[r] = ([[mid - 1, 50.0]], [[mid + 1, 50.0]])
            first = {"_": "req", "op": "place", "si": si, "r": r, "side": "BACK", "type": "LIMIT", "tick": max(0, mid - 3), "size": 2.0,
                     "pers": "LAPSE", "trade": "new"}
            if rs:
                first["reset_seconds"] = rs
            self._do(first)
            self._do({"_": "book", "dt": 1000, "rc": []})  # matched in full on arrival: the trade completes
            if d(st.booleans()):
                self._do({"_": "req", "op": "place", "si": si, "r": r, "side": "BACK", "type": "LIMIT", "tick": min(self.nt - 1, mid + 6), "size": 2.0,
                          "pers": "PERSIST", "trade": "new"})
                self._do({"_": "book", "dt": d(st.sampled_from([200, 1000])), "rc": []})
            self._do({"_": "req", "op": "place", "si": si, "r": r, "side": d(st.sampled_from(["BACK", "LAY"])), "type": "LIMIT",
                      "tick": min(self.nt - 1, mid + 8), "size": 2.0, "pers": "LAPSE", "trade": idx, "reuse_completed_trade": True})
            self._do({"_": "book", "dt": d(st.sampled_from([200, 1000])), "rc": []})

        @precondition(lambda self: rw.get("squeeze", 0) > 0)
        @rule(data=st.data())
        def moc_lay_partial_cancel(self, data):
            """directed (C01): a LAY limit order with MARKET_ON_CLOSE persistence rests, is partly cancelled, the freed
            headroom is used by a second lay, then the starting price is reconciled at the order's price"""
            if not self.w or not self.w.spec.get("bsp_market") or not self.w.spec.get("persistence_enabled", True):
                return
            defn = self.w.s.renderers[0].defn
            if defn["status"] != "OPEN" or defn["inPlay"]:
                return
            d = data.draw
            si = d(st.integers(0, self.ns - 1))
            if self.w.lab.strategies[si].my_orders:
                return  # headroom already used: the shape needs the full limit
            scfg = self.w.cfg["strategies"][si]
            caps = [x for x in (scfg.get("max_selection_exposure"), scfg.get("max_market_exposure")) if x]
            lim = min(caps) if caps else 30
            if lim < 23:
                return  # a remainder risking less than the minimum starting-price liability lapses instead of converting
            if scfg.get("max_order_exposure") is not None and scfg["max_order_exposure"] < 0.9 * lim:
                return  # the first order would already be refused by the per-order limit
            r = d(st.integers(0, self.nr - 1))
            tick = max(2, self.mids[r] - 20)
            price = self.w.prices[tick]
            size = max(0.02, round(lim * 0.9 / max(0.01, price - 1), 2))
            self._do({"_": "req", "op": "place", "si": si, "r": r, "side": "LAY", "type": "LIMIT", "tick": tick, "size": size,
                      "pers": "MARKET_ON_CLOSE", "trade": "new"})
            self._do({"_": "book", "dt": 1000, "rc": []})
            self._do({"_": "req", "op": "cancel", "red": 0.5, "si": si, "o": -1, "pool": "any"})
            self._do({"_": "book", "dt": 1000, "rc": []})
            self._do({"_": "req", "op": "place", "si": si, "r": r, "side": "LAY", "type": "LIMIT", "tick": tick, "size": max(0.01, round(size * 0.55, 2)),
                      "pers": "MARKET_ON_CLOSE", "trade": "new"})
            self._do({"_": "book", "dt": 1000, "rc": []})
            bsp = [round(self.w.prices[max(0, min(self.nt - 1, self.mids[x]))], 2) for x in range(self.nr)]
            bsp[r] = price
            self._do({"_": "inplay", "dt": 1000, "bet_delay": 1, "status": "OPEN", "bump": True, "bsp": bsp})
            self._do({"_": "book", "dt": 1000, "rc": []})

        @precondition(lambda self: rw["inplay"] > 0 and rw["place"] > 0)
        @rule(data=st.data())
        def late_sp(self, data):
            """directed: a starting-price order requested once the market is in play and the starting price
            reconciled - its placement fails at the exchange (no bet id); nothing may ever be matched on it"""
            if not self.w or not self.w.spec.get("bsp_market"):
                return
            d = data.draw
            prices = self.w.prices
            bsp = [round(prices[max(0, min(self.nt - 1, self.mids[r] + d(st.integers(-4, 4))))], 2) for r in range(self.nr)]
            self._do({"_": "inplay", "dt": 1000, "bet_delay": d(st.sampled_from([0, 1])), "status": "OPEN", "bump": True, "bsp": bsp})
            self._do({"_": "book", "dt": 1000, "rc": []})
            r = d(st.integers(0, self.nr - 1))
            side = d(st.sampled_from(["BACK", "LAY"]))
            self._do({"_": "req", "op": "place", "si": d(st.integers(0, self.ns - 1)), "r": r, "side": side, "type": d(st.sampled_from(["MOC", "LOC"])),
                      "liability": d(st.sampled_from([2.0, 10.0])), "tick": (max(0, self.mids[r] - 20) if side == "BACK" else min(self.nt - 1, self.mids[r] + 20)),
                      "trade": "new"})
            self._do({"_": "book", "dt": 3000, "rc": []})
            self._do({"_": "book", "dt": 1000, "rc": []})

        @precondition(lambda self: rw["remove"] > 0)
        @rule(r=st.integers(0, 3), af=st.sampled_from([1.0, 2.5, 10, 40]))
        def remove(self, r, af):
            self._do({"_": "remove", "dt": 1000, "af": af, "ri": r})

        @precondition(lambda self: rw["close"] > 0 and len(self.trace) > 14)
        @rule(data=st.data())
        def close(self, data):
            res = data.draw(st.lists(st.sampled_from(["WINNER", "LOSER", "LOSER"]), min_size=self.nr, max_size=self.nr))
            self._do({"_": "close", "dt": 1000, "results": res})

        @precondition(lambda self: rw.get("reopen", 0) > 0 and self.w is not None and self.w.closed_market)
        @rule()
        def reopen(self):
            self._do({"_": "reopen", "dt": 1000})
            self._do({"_": "book", "dt": 1000, "rc": []})

        # ---- requests
        @precondition(lambda self: rw["place"] > 0)
        @rule(data=st.data())
        def place(self, data):
            d = data.draw
            state = {"books": self.books}
            kw = self.place_kw()
            op = d(gen.place_op(self.w.spec, state, self.nr, **kw))
            op["si"] = d(st.integers(0, self.ns - 1))
            tr = d(st.sampled_from(["new", "new", "new", 0, 1, 2]))
            op["trade"] = tr
            if tr != "new" and d(st.integers(0, 1)):
                op["reuse_completed_trade"] = True  # e.g. a hedge placed in a trade whose first order already completed
            if d(st.integers(0, 9)) == 0:
                op["force"] = True
            for k_ in ("reset_seconds", "place_reset_seconds"):
                if d(st.integers(0, 3)) == 0:
                    op[k_] = d(st.sampled_from([0.5, 5]))
            self._do({"_": "req", **op})

        def place_kw(self):
            return dict(kinds=("LIMIT", "LIMIT", "LIMIT", "LOC", "MOC"), sp=True, sizes="level")

        @precondition(lambda self: rw["follow"] > 0)
        @rule(data=st.data())
        def follow(self, data):
            d = data.draw
            op = d(gen.follow_op())
            op["si"] = d(st.integers(0, self.ns - 1))
            op["pool"] = d(st.sampled_from(["any", "live", "exec", "exec"]))
            if d(st.integers(0, 9)) == 0:
                op["force"] = True
            self._do({"_": "req", **op})

        @precondition(lambda self: rw["follow"] > 0 and rw["suspend"] > 0)
        @rule(data=st.data())
        def race(self, data):
            """directed: a request goes in flight, the order completes for another reason before the response"""
            d = data.draw
            op = d(gen.follow_op())
            op["si"] = d(st.integers(0, self.ns - 1))
            op["pool"] = "exec"
            self._do({"_": "req", **op})
            ev = d(st.sampled_from(["suspend", "suspend", "remove", "fill", "partial", "partial"]))
            if ev == "suspend":
                self._do({"_": "suspend", "dt": 50, "bump": True})
            elif ev == "remove":
                self._do({"_": "remove", "dt": 50, "af": 10, "ri": d(st.integers(0, 3))})
            else:
                amount = 500.0 if ev == "fill" else d(st.sampled_from([0.5, 1.0, 2.0]))
                rcs = [{"r": r, "trd": [[max(0, min(self.nt - 1, self.mids[r] + k)), amount] for k in (-3, 0, 3)]} for r in range(self.nr)]
                self._do({"_": "book", "dt": 50, "rc": rcs})
            self._do({"_": "book", "dt": d(st.sampled_from([50, 1000])), "rc": []})

        @precondition(lambda self: rw["follow"] > 0 and rw["place"] > 0)
        @rule(data=st.data())
        def race2(self, data):
            """directed, self-contained: rest an order, fill it partly, put a request in flight, then another event"""
            d = data.draw
            si = d(st.integers(0, self.ns - 1))
            r = d(st.integers(0, self.nr - 1))
            side = d(st.sampled_from(["BACK", "LAY"]))
            tick = max(0, min(self.nt - 1, self.mids[r] + (1 if side == "BACK" else -1) * d(st.integers(0, 2))))
            self._do({"_": "req", "op": "place", "si": si, "r": r, "side": side, "type": "LIMIT", "tick": tick,
                      "size": d(st.sampled_from([2.0, 10.0, 33.33])), "pers": d(st.sampled_from(["LAPSE", "PERSIST"])), "trade": "new"})
            self._do({"_": "book", "dt": 300, "rc": []})
            if d(st.integers(0, 3)):
                self._do({"_": "book", "dt": 200, "rc": [{"r": r, "trd": [[tick, d(st.sampled_from([1.0, 2.0, 4.0]))]]}]})
            op = d(gen.follow_op())
            self._do({"_": "req", **op, "si": si, "o": -1, "pool": "any"})
            ev = d(st.sampled_from(["none", "suspend", "remove", "fill", "partial"]))
            if ev == "suspend":
                self._do({"_": "suspend", "dt": 50, "bump": True})
            elif ev == "remove":
                self._do({"_": "remove", "dt": 50, "af": 10, "ri": r})
            elif ev != "none":
                self._do({"_": "book", "dt": 50, "rc": [{"r": r, "trd": [[tick, 500.0 if ev == "fill" else 1.0]]}]})
            self._do({"_": "book", "dt": d(st.sampled_from([50, 1000])), "rc": []})

        @precondition(lambda self: rw.get("squeeze", 0) > 0)
        @rule(data=st.data())
        def squeeze(self, data):
            """directed (C01): two orders that each fit a limit but not together; the second is requested while a
            request on the first (already acknowledged) is in flight"""
            d = data.draw
            si = d(st.integers(0, self.ns - 1))
            scfg = self.w.cfg["strategies"][si]
            lim = scfg.get("max_selection_exposure") or scfg.get("max_market_exposure") or scfg.get("max_order_exposure") or 10
            r = d(st.integers(0, self.nr - 1))
            side = d(st.sampled_from(["BACK", "BACK", "LAY"]))
            frac = d(st.sampled_from([0.55, 0.7, 0.95]))
            if side == "BACK":
                tick, size = min(self.nt - 1, self.mids[r] + 20), round(lim * frac, 2)
            else:
                tick = max(0, self.mids[r] - 20)
                size = round(lim * frac / max(0.01, self.w.prices[tick] - 1), 2)
            if self.w.spec.get("ladder", {}).get("type") == "LINE_RANGE":
                size = round(lim * frac, 2)  # a line bet is struck at evens: the liability is the stake on both sides
            size = max(0.01, size)
            self._do({"_": "req", "op": "place", "si": si, "r": r, "side": side, "type": "LIMIT", "tick": tick, "size": size,
                      "pers": "LAPSE", "trade": "new"})
            self._do({"_": "book", "dt": 300, "rc": []})
            fo = d(st.sampled_from([{"op": "cancel", "red": 0.25}, {"op": "cancel", "red": None}, {"op": "replace", "ticks": 1}, {"op": "update", "pers": "PERSIST"}, None]))
            if fo:
                self._do({"_": "req", **fo, "si": si, "o": -1, "pool": "any"})
            r2 = r if d(st.integers(0, 2)) else d(st.integers(0, self.nr - 1))
            self._do({"_": "req", "op": "place", "si": si, "r": r2, "side": side, "type": "LIMIT", "tick": tick, "size": size,
                      "pers": "LAPSE", "trade": "new"})
            self._do({"_": "book", "dt": d(st.sampled_from([50, 1000])), "rc": []})

        @precondition(lambda self: rw.get("squeeze", 0) > 0)
        @rule(data=st.data())
        def sp_stack(self, data):
            """directed (C01): several starting-price orders of one side on one selection, each acknowledged before
            the next; each fits the limit, the last one does not fit on top of the others"""
            if not self.w.spec.get("bsp_market"):
                return
            d = data.draw
            si = d(st.integers(0, self.ns - 1))
            scfg = self.w.cfg["strategies"][si]
            lim = scfg.get("max_selection_exposure") or scfg.get("max_market_exposure") or scfg.get("max_order_exposure") or 10
            r = d(st.integers(0, self.nr - 1))
            side = d(st.sampled_from(["LAY", "LAY", "BACK"]))
            n = d(st.integers(2, 3))
            frac = d(st.sampled_from([0.4, 0.45])) if n == 3 else d(st.sampled_from([0.55, 0.7]))
            for _ in range(n):
                typ = d(st.sampled_from(["MOC", "MOC", "LOC"]))
                op = {"_": "req", "op": "place", "si": si, "r": r, "side": side, "type": typ, "liability": max(0.01, round(lim * frac, 2)),
                      "tick": (max(0, self.mids[r] - 30) if side == "BACK" else min(self.nt - 1, self.mids[r] + 30)), "trade": "new"}
                self._do(op)
                self._do({"_": "book", "dt": 1000, "rc": []})

        @precondition(lambda self: rw["place_existing"] > 0)
        @rule(si=st.integers(0, 2), o=st.integers(0, 7), force=st.booleans())
        def place_existing(self, si, o, force):
            e = {"_": "req", "op": "place_existing", "si": si, "o": o, "pool": "any"}
            if force:
                e["force"] = True
            self._do(e)

        @precondition(lambda self: rw["resubmit"] > 0)
        @rule(si=st.integers(0, 2), o=st.integers(0, 7), other=st.booleans())
        def resubmit(self, si, o, other):
            self._do({"_": "req", "op": "resubmit", "si": si, "o": o, "other_client": other})

        @precondition(lambda self: rw["txn"] > 0)
        @rule(data=st.data())
        def txn(self, data):
            d = data.draw
            items = []
            for _ in range(d(st.integers(1, 6))):
                c = d(st.integers(0, 5))
                if c <= 2:
                    op = d(gen.place_op(self.w.spec, {"books": self.books}, self.nr, kinds=("LIMIT",), sp=False, sizes="level"))
                    items.append(op)
                elif c == 3:
                    items.append({"op": "execute"})
                else:
                    op = d(gen.follow_op())
                    op["pool"] = d(st.sampled_from(["exec", "exec", "any"]))
                    items.append(op)
            if d(st.integers(0, 3)) == 0:
                # the transaction is flushed explicitly and then used again for follow-up requests on resting orders
                items.append({"op": "execute"})
                for _ in range(d(st.integers(1, 3))):
                    op = d(gen.follow_op())
                    op["pool"] = "exec"
                    items.append(op)
            self._do({"_": "txn", "si": d(st.integers(0, self.ns - 1)), "items": items, "raise_through": d(st.booleans())})

        @precondition(lambda self: rw.get("replace_through", 0) > 0)
        @rule(data=st.data())
        def replace_through(self, data):
            """directed: an order rests behind a known book and is replaced to a price THROUGH the best price - the
            replacement fills on arrival, or (best-price execution off) its placement is refused after the cancel leg
            succeeded: the replaced order stays complete either way"""
            if not self.w:
                return
            d = data.draw
            si = d(st.integers(0, self.ns - 1))
            r = d(st.integers(0, self.nr - 1))
            mid = self.mids[r]
            side = d(st.sampled_from(["BACK", "LAY"]))
            book = {"r": r, "atb": [[mid - 1, 50.0], [mid - 3, 20.0]], "atl": [[mid + 1, 50.0], [mid + 3, 20.0]]}
            self._do({"_": "book", "dt": 1000, "rc": [book]})
            self.books[r] = (book["atb"], book["atl"])
            rest = min(self.nt - 1, mid + 6) if side == "BACK" else max(0, mid - 6)
            self._do({"_": "req", "op": "place", "si": si, "r": r, "side": side, "type": "LIMIT", "tick": rest, "size": d(st.sampled_from([2.0, 30.0, 80.0])),
                      "pers": d(st.sampled_from(["LAPSE", "PERSIST"])), "trade": "new"})
            self._do({"_": "book", "dt": 1000, "rc": []})
            self._do({"_": "req", "op": "replace", "si": si, "o": -1, "pool": "exec", "ticks": (-10 if side == "BACK" else 10)})
            self._do({"_": "book", "dt": 1000, "rc": []})
            self._do({"_": "book", "dt": 1000, "rc": [{"r": r, "trd": [[rest, d(st.sampled_from([4.0, 100.0]))]]}]})

        @precondition(lambda self: rw.get("replace_through", 0) > 0)
        @rule(data=st.data())
        def double_request(self, data):
            """directed: a second request (any kind) on an order whose first request is still in flight - it is refused
            by the order's state and changes nothing; both windows then elapse"""
            if not self.w:
                return
            d = data.draw
            si = d(st.integers(0, self.ns - 1))
            r = d(st.integers(0, self.nr - 1))
            mid = self.mids[r]
            side = d(st.sampled_from(["BACK", "LAY"]))
            rest = min(self.nt - 1, mid + 8) if side == "BACK" else max(0, mid - 8)
            self._do({"_": "req", "op": "place", "si": si, "r": r, "side": side, "type": d(st.sampled_from(["LIMIT", "LIMIT", "LOC"])), "tick": rest,
                      "size": 2.0, "liability": 2.0, "pers": d(st.sampled_from(["LAPSE", "PERSIST"])), "trade": "new"})
            self._do({"_": "book", "dt": 1000, "rc": []})
            first = d(st.sampled_from(["replace", "cancel", "update"]))
            ops = {"replace": {"op": "replace", "ticks": d(st.sampled_from([2, 3]))}, "cancel": {"op": "cancel", "red": d(st.sampled_from([None, 0.5]))},
                   "update": {"op": "update", "pers": "PERSIST"}}
            self._do({"_": "req", "si": si, "o": -1, "pool": "live", **ops[first]})
            if d(st.booleans()):
                self._do({"_": "book", "dt": 50, "rc": []})
            second = d(st.sampled_from(["replace", "replace", "cancel", "update"]))
            op2 = dict(ops[second])
            if second == "replace":
                op2["ticks"] = 5
            if second == "update":
                op2["pers"] = "LAPSE"
            self._do({"_": "req", "si": si, "o": -1, "pool": "live", **op2})
            self._do({"_": "book", "dt": 1000, "rc": []})
            self._do({"_": "book", "dt": 1000, "rc": []})

        @precondition(lambda self: rw.get("resubmit", 0) > 0 and rw["txn"] > 0 and self.w is not None and len(self.w.lab.clients) > 1)
        @rule(data=st.data())
        def foreign_client_request(self, data):
            """directed: an order refused while the market is suspended is submitted again through ANOTHER client; a
            follow-up request for it (forced or not) inside a transaction of the strategy's usual client is refused with an
            error - forcing skips the controls, nothing else"""
            d = data.draw
            si = d(st.integers(0, self.ns - 1))
            r = d(st.integers(0, self.nr - 1))
            self._do({"_": "suspend", "dt": 50, "bump": False})
            self._do({"_": "req", "op": "place", "si": si, "r": r, "side": "BACK", "type": "LIMIT", "tick": min(self.nt - 1, self.mids[r] + 9), "size": 2.0,
                      "pers": "PERSIST", "trade": "new"})
            self._do({"_": "suspend", "dt": 50, "bump": False})  # (re-opens)
            self._do({"_": "req", "op": "resubmit", "si": si, "o": -1, "other_client": True})
            self._do({"_": "book", "dt": 1000, "rc": []})
            kind = d(st.sampled_from(["cancel", "cancel", "update", "replace"]))
            item = {"op": kind, "o": -1, "pool": "any", "force": d(st.booleans())}
            if kind == "cancel":
                item["red"] = None
            elif kind == "update":
                item["pers"] = "LAPSE"
            else:
                item["ticks"] = 2
            self._do({"_": "txn", "si": si, "items": [item], "raise_through": False})
            self._do({"_": "book", "dt": 1000, "rc": []})

        @precondition(lambda self: rw.get("cancel_batch", 0) > 0)
        @rule(data=st.data())
        def cancel_batch(self, data):
            """directed (C18 / C12): two or three resting orders cancelled in ONE package; the market suspends inside
            the cancel latency (some or all cancels then fail at execution), and re-opens"""
            d = data.draw
            si = d(st.integers(0, self.ns - 1))
            n = d(st.integers(2, 3))
            if self.w is not None and d(st.booleans()):
                # make sure enough orders rest: n placements behind the book, acknowledged before the batch
                r = d(st.integers(0, self.nr - 1))
                for k in range(n):
                    self._do({"_": "req", "op": "place", "si": si, "r": r, "side": "BACK", "type": "LIMIT", "tick": min(self.nt - 1, self.mids[r] + 12 + 2 * k),
                              "size": 2.0, "pers": "LAPSE", "trade": "new"})
                self._do({"_": "book", "dt": 1000, "rc": []})
            if d(st.integers(0, 2)) == 0:
                # the same with persistence updates (one UPDATE package, failing instructions are charged one by one)
                self._do({"_": "txn", "si": si, "items": [{"op": "update", "o": k, "pool": "exec", "pers": d(st.sampled_from(["PERSIST", "LAPSE"]))} for k in range(n)],
                          "raise_through": False})
            else:
                self._do({"_": "txn", "si": si, "items": [{"op": "cancel", "o": k, "pool": "exec", "red": None} for k in range(n)], "raise_through": False})
            if d(st.integers(0, 3)):
                self._do({"_": "suspend", "dt": 50, "bump": False})
                self._do({"_": "book", "dt": 1000, "rc": []})
                self._do({"_": "suspend", "dt": 1000, "bump": False})
            else:
                self._do({"_": "book", "dt": 1000, "rc": []})

        @precondition(lambda self: rw["bulk"] > 0)
        @rule(data=st.data())
        def bulk(self, data):
            d = data.draw
            kind = d(st.sampled_from(["bulk_place", "bulk_place", "cancel", "update", "replace"]))
            if kind == "bulk_place":
                n = d(st.sampled_from([0, 1, 199, 200, 201, 450]))
                items = [{"op": "bulk_place", "n": n, "tick": d(st.integers(250, 300)), "side": "BACK", "r": d(st.integers(0, self.nr - 1)),
                          "mvs": d(st.sampled_from([[None], [None, "cur"], ["cur", "stale", None]]))}]
                if d(st.booleans()):
                    items.insert(0, {"op": "bulk_place", "n": d(st.sampled_from([1, 30])), "tick": 280, "side": "BACK", "mvs": [None]})
                    items.insert(1, {"op": "execute"})
            else:
                items = [{"op": "bulk", "kind": kind, "n": d(st.sampled_from([1, 59, 60, 61, 130]))}]
                if d(st.integers(0, 2)) == 0:
                    # the same transaction also holds a placement (packaged first): every kind keeps its own per-call limit
                    items.insert(0, {"op": "bulk_place", "n": d(st.sampled_from([1, 2])), "tick": 285, "side": "BACK", "mvs": [None]})
                    if d(st.booleans()):
                        items.insert(1, {"op": "execute"})
            self._do({"_": "txn", "si": 0, "items": items})

        def teardown(self):
            if self.w is not None:
                try:
                    nt, classes = self.w.summary()
                finally:
                    self.w.close()
                if not self.failed:
                    self.col.record(self.trace, nt, classes, self.sub)

    return Machine
