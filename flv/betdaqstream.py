"""Betdaq order-stream path (flumine/order/process.py process_betdaq_current_orders / process_betdaq_current_order)
driven at object level: a real Flumine with a BetdaqClient, real BetdaqOrder objects in a real blotter, and order-stream
batches (lists of dicts, the shape betdaq's client delivers) built by an independent model of the exchange's view.

Used by C03 (one operation in flight: an UPDATING order is released only by a snapshot of ITS OWN with a new sequence
number; no further request is accepted meanwhile) and C19 (an update is applied only to the order whose reference it
carries: references of other instances on the account are ignored without effect)."""
from unittest import mock

from hypothesis import strategies as st

from .common import Violation

OPS = ["update_flag", "update_price", "update_stake", "cancel", "snap", "snap", "snap_foreign", "ack", "ack", "match", "request_again"]


@st.composite
def case(draw):
    n = draw(st.integers(1, 3))
    ops = []
    for _ in range(draw(st.integers(2, 14))):
        k = draw(st.sampled_from(OPS))
        op = {"op": k, "o": draw(st.integers(0, n - 1))}
        if k in ("snap", "snap_foreign"):
            # which local orders the batch mentions (in which order) and where the foreign references sit
            op["orders"] = draw(st.lists(st.integers(0, n - 1), min_size=0 if k == "snap_foreign" else 1, max_size=n, unique=True))
            op["foreign_at"] = draw(st.lists(st.integers(0, n), min_size=1 if k == "snap_foreign" else 0, max_size=2))
            op["foreign_status"] = draw(st.sampled_from(["Matched", "Cancelled", "Unmatched"]))
        if k == "request_again":
            op["kind"] = draw(st.sampled_from(["cancel", "update_flag", "update_price"]))
        ops.append(op)
    return {"betdaq": True, "n": n, "ops": ops}


def check(c):
    """returns (nontrivial, classes) or raises Violation"""
    from flumine import Flumine, BaseStrategy
    from flumine.clients import BetdaqClient
    from flumine.clients.clients import ExchangeType
    from flumine.events.events import CurrentOrdersEvent
    from flumine.exceptions import OrderUpdateError
    from flumine.order.trade import Trade
    from flumine.order.ordertype import BetdaqLimitOrder
    from . import simlab

    classes = set()
    nontrivial = False
    with simlab.clean_config({"simulated": False}):
        client = BetdaqClient(betting_client=mock.Mock(lightweight=False), username="acc")
        fw = Flumine(client=client)
        strat = BaseStrategy(market_filter={}, name="S")
        fw.add_strategy(strat)
        market = fw._add_market("1.100", None)
        orders, model = [], []
        for i in range(c["n"]):
            t = Trade(market.market_id, 101 + i, 0, strat)
            o = t.create_betdaq_order("BACK", BetdaqLimitOrder(price=3.0, size=10.0, betdaq_runner_id=101 + i, runner_reset_count=0,
                                                             withdrawal_sequence_number=0))
            o.update_client(client)
            o.place(0, None, False)
            market.blotter[o.id] = o
            o.bet_id = 5001 + i
            o.executable()
            orders.append(o)
            # the exchange's view of the bet + what the framework has in flight for it
            model.append({"status": "Unmatched", "matched": 0.0, "price": 3.0, "seq": 1, "inflight": None, "last_seen_seq": None})

        def exch(i):
            m, o = model[i], orders[i]
            return {"order_id": o.bet_id, "customer_reference": int(o.id), "status": m["status"], "matched_size": m["matched"],
                    "remaining_size": round(10.0 - m["matched"], 2) if m["status"] == "Unmatched" else 0.0,
                    "matched_price": 3.0 if m["matched"] else 0, "price": m["price"], "sequence_number": m["seq"]}

        def foreign(k, status):
            return {"order_id": 9000 + k, "customer_reference": 777000000000000000 + k, "status": status,
                    "matched_size": 10.0 if status == "Matched" else 0.0, "remaining_size": 0.0 if status != "Unmatched" else 10.0,
                    "matched_price": 3.0 if status == "Matched" else 0, "price": 3.0, "sequence_number": 4}

        def request(i, kind):
            o = orders[i]
            before = o.status.name
            try:
                if kind == "cancel":
                    o.cancel()
                elif kind == "update_flag":
                    o.update(cancel_on_in_running=False)
                elif kind == "update_price":
                    o.update(new_price=3.2)
                else:
                    o.update(size_delta=2.0)
                return before, True
            except OrderUpdateError:
                return before, False

        try:
            for op in c["ops"]:
                i = op["o"] % c["n"]
                k = op["op"]
                m = model[i]
                if k in ("update_flag", "update_price", "update_stake", "cancel", "request_again"):
                    kind = op.get("kind", k)
                    before, ok = request(i, kind)
                    if ok and (before != "EXECUTABLE" or m["inflight"] is not None):
                        raise Violation("request-accepted-in-wrong-state", ("betdaq", kind, before),
                                        "%s accepted on a Betdaq order that was %s with %s still unanswered" % (kind, before, m["inflight"]), c)
                    if ok:
                        m["inflight"] = kind
                        classes.add("request:" + kind)
                    elif before != "EXECUTABLE":
                        classes.add("refused-while-" + before)
                        nontrivial = True
                elif k == "ack":
                    # the exchange answers the request in flight: the change is applied there (new sequence number)
                    if m["inflight"] and m["status"] == "Unmatched":
                        if m["inflight"] == "cancel":
                            m["status"] = "Cancelled"
                        elif m["inflight"] == "update_price":
                            m["price"] = 3.2
                        m["seq"] += 1
                        m["answered"] = True
                elif k == "match":
                    if m["status"] == "Unmatched" and not m.get("answered"):
                        m["status"], m["matched"] = "Matched", 10.0
                        m["seq"] += 1
                elif k in ("snap", "snap_foreign"):
                    idxs = [x % c["n"] for x in op.get("orders", [])]
                    batch = [exch(x) for x in idxs]
                    for pos in sorted(set(op.get("foreign_at", [])), reverse=True):
                        batch.insert(min(pos, len(batch)), foreign(pos, op.get("foreign_status", "Matched")))
                    snap_before = [(o.status.name, o.size_matched, dict(o.current_order) if isinstance(o.current_order, dict) else None) for o in orders]
                    fw._process_current_orders(CurrentOrdersEvent(batch, exchange=ExchangeType.BETDAQ))
                    if len(batch) > len(idxs):
                        classes.add("batch-with-foreign-reference")
                        if idxs:
                            nontrivial = True
                    for x, o in enumerate(orders):
                        mm = model[x]
                        if x not in idxs:
                            # not mentioned: nothing about it may change
                            now = (o.status.name, o.size_matched, dict(o.current_order) if isinstance(o.current_order, dict) else None)
                            if now != snap_before[x]:
                                raise Violation("update-applied-to-another-order", ("betdaq", "foreign-in-batch" if len(batch) > len(idxs) else "own-only"),
                                                "order %d (bet %s) was not in the batch but changed %s -> %s; batch references %s" % (
                                                    x, o.bet_id, snap_before[x][:2], now[:2], [b["customer_reference"] for b in batch]), c)
                            continue
                        # mentioned: it carries the exchange state of ITS bet
                        if isinstance(o.current_order, dict) and o.current_order.get("order_id") not in (None, o.bet_id):
                            raise Violation("update-applied-to-another-order", ("betdaq", "record-of-another-bet"),
                                            "order %d (bet %s) holds the exchange record of bet %s" % (x, o.bet_id, o.current_order.get("order_id")), c)
                        if o.size_matched != mm["matched"]:
                            raise Violation("update-applied-to-another-order", ("betdaq", "matched-size"),
                                            "order %d (bet %s) reports matched %s, its bet has %s" % (x, o.bet_id, o.size_matched, mm["matched"]), c)
                        # an order with a request in flight is released only by a snapshot that reflects the answer
                        was = snap_before[x][0]
                        if was == "UPDATING" and o.status.name != "UPDATING" and mm["seq"] == mm["last_seen_seq"]:
                            raise Violation("released-without-acknowledgement", ("betdaq", mm["inflight"] or "?"),
                                            "order %d left UPDATING (%s) on a snapshot with an unchanged sequence number %s - the %s request is still unanswered" % (
                                                x, o.status.name, mm["seq"], mm["inflight"]), c)
                        if was == "UPDATING" and o.status.name != "UPDATING":
                            mm["inflight"] = None
                            classes.add("update-acknowledged-by-stream")
                            nontrivial = True
                        if was == "CANCELLING" and o.status.name == "EXECUTION_COMPLETE":
                            mm["inflight"] = None
                        mm["last_seen_seq"] = mm["seq"]
                        if mm["status"] in ("Matched", "Cancelled") and o.status.name == "EXECUTABLE":
                            raise Violation("completion-not-picked-up", ("betdaq", mm["status"]), "bet %s is %s at the exchange, order still EXECUTABLE after its snapshot" % (o.bet_id, mm["status"]), c)
        finally:
            fw.simulated_execution.shutdown()
            fw.betfair_execution.shutdown()
            fw.betdaq_execution.shutdown()
    return nontrivial, classes
