#!/venv/bin/python
"""check.py <Cxx> --tier quick|thorough [--replay FILE] [--shards N]

exit 0: property held on everything explored (KNOWN-FINDING lines possible)
exit 1: at least one violation not listed in known_findings.json (VIOLATION lines)
exit 2: harness error / inconclusive (never a violation)
"""
import argparse
import json
import os
import sys
import time

HERE = os.path.dirname(os.path.abspath(__file__))


def main():
    ap = argparse.ArgumentParser()
    ap.add_argument("prop")
    ap.add_argument("--tier", default=os.environ.get("VERIF_TIER", "quick"))
    ap.add_argument("--replay")
    ap.add_argument("--shards", type=int)
    args = ap.parse_args()

    if os.environ.get("PYTHONHASHSEED") != "0":
        env = dict(os.environ, PYTHONHASHSEED="0", PYTHONDONTWRITEBYTECODE="1")
        os.execve(sys.executable, [sys.executable] + sys.argv, env)

    sys.path.insert(0, HERE)
    from flv import common

    common.setup_path()
    prop = args.prop.upper()
    modname = "flv.props.%s" % prop.lower()
    try:
        seed = int(os.environ.get("VERIF_SEED", "1"))
    except ValueError:
        seed = 1
    tier = args.tier if args.tier in ("quick", "thorough") else "quick"

    import importlib
    import logging

    logging.disable(logging.CRITICAL)

    if args.replay:
        mod = importlib.import_module(modname)
        with open(args.replay) as f:
            rec = json.load(f)
        try:
            try:
                mod.replay(rec["case"], rec.get("sub"))
            except (common.Violation, common.HarnessError):
                raise
            except Exception as exc:  # a crash out of repository code is the recorded finding itself
                raise common.crash_violation(exc, rec["case"], "crash") from exc
        except common.Violation as v:
            known = common.match_known(common.load_known(prop), v.signature)
            if known:
                print("KNOWN-FINDING: property=%s %s" % (prop, known["what"]))
                return 0
            print("replay: %s" % v)
            print("VIOLATION property=%s replay=%s" % (prop, args.replay))
            return 1
        print("replay passed: %s" % args.replay)
        return 0

    t0 = time.time()
    try:
        mod = importlib.import_module(modname)  # import errors are harness errors
    except Exception:
        import traceback

        sys.stderr.write("HARNESS ERROR importing %s:\n%s\n" % (modname, traceback.format_exc()))
        return 2
    nshards = args.shards or mod.SHARDS.get(tier, 8)
    results = common.run_property(modname, tier, seed, nshards)
    errors = [r[1] for r in results if r[0] != "ok"]
    if errors:
        sys.stderr.write("HARNESS ERROR in %s:\n%s\n" % (prop, errors[0]))
        return 2
    merged = common.merge([r[1] for r in results])
    wall = time.time() - t0
    path = common.write_evidence(mod, tier, seed, merged, wall)
    known = common.load_known(prop)
    for k in known:
        hits = merged["known_hits"].get(k["signature"], 0)
        # the recorded minimal case of every known finding is replayed on each run, so the line is
        # printed whether or not the random search happened to hit it
        reproduced = None
        if k.get("replay"):
            try:
                with open(os.path.join(HERE, k["replay"])) as f:
                    rec = json.load(f)
                mod.replay(rec["case"], rec.get("sub"))
                reproduced = False
            except common.Violation as v:
                reproduced = common.match_known([k], v.signature) is not None
                if not reproduced:
                    merged["violations"].append({"signature": v.signature, "message": v.message,
                                                 "case": rec["case"], "sub": rec.get("sub")})
        if hits or reproduced:
            print("KNOWN-FINDING: property=%s %s (recorded case reproduces: %s; hit %d times in this run's search)" % (
                prop, k["what"], reproduced, hits))
        elif reproduced is False:
            print("note: known finding no longer reproduces from its recorded case: %s" % k["signature"])
    rc = 0
    for v in merged["violations"]:
        rp = common.save_replay(prop, v)
        print("violation %s: %s" % (v["signature"], v["message"][:400]))
        print("VIOLATION property=%s replay=%s" % (prop, rp))
        rc = 1
    print(
        "%s tier=%s seed=%d evaluations=%d distinct_nontrivial=%d violations=%d wall=%.1fs evidence=%s"
        % (prop, tier, seed, merged["evaluations"], len(merged["nontrivial"]), len(merged["violations"]), wall, path)
    )
    if rc == 0 and len(merged["nontrivial"]) < 2:
        sys.stderr.write("HARNESS ERROR: fewer than 2 non-trivial cases generated\n")
        return 2
    return rc


if __name__ == "__main__":
    try:
        rc = main()
    except SystemExit:
        raise
    except BaseException:  # anything unexpected in the driver is a harness error, never a violation
        import traceback

        sys.stderr.write("HARNESS ERROR:\n%s\n" % traceback.format_exc())
        rc = 2
    sys.exit(rc)
