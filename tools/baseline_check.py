#!/venv/bin/python
"""Runs the pinned suite in /repo and compares with /root/.vp/BASELINE.json stable_pass."""
import json, subprocess, sys, tempfile, os, xml.etree.ElementTree as ET
b = json.load(open("/root/.vp/BASELINE.json"))
fd, path = tempfile.mkstemp(suffix=".xml"); os.close(fd)
subprocess.run(["/venv/bin/python", "-m", "pytest", "-q", "-p", "no:cacheprovider", "--timeout=900",
                "--continue-on-collection-errors", "--junitxml=" + path], cwd=os.environ.get("BASE_REPO", "/repo"), capture_output=True)
passed = set()
for tc in ET.parse(path).getroot().iter("testcase"):
    if not any(ch.tag in ("failure", "error", "skipped") for ch in tc):
        passed.add("%s::%s" % (tc.get("classname"), tc.get("name")))
os.unlink(path)
want = set(b["stable_pass"])
# baseline ids look like tests.test_x.Class::test
missing = sorted(w for w in want if w not in passed)
print("stable_pass=%d passed_now=%d missing=%d" % (len(want), len(passed), len(missing)))
for m in missing[:20]: print("  MISSING", m)
sys.exit(1 if missing else 0)
