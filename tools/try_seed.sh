#!/bin/bash
# usage: try_seed.sh <seed_dir_out> <name> <prop> [tier]
# confirms a seeded fault (tests still pass, demo fails with / passes without), stores it under
# /verif/seeded/<name>/ and runs the property's check against it.  /repo is restored afterwards.
set -u
OUT=$1; NAME=$2; PROP=$3; TIER=${4:-quick}
D=/verif/seeded/$NAME
mkdir -p $D
cp $OUT/patch.diff $D/patch.diff
cp $OUT/demo.py $D/demo.py 2>/dev/null
[ -f $OUT/meta.json ] && cp $OUT/meta.json $D/meta_agent.json
cd /repo
git diff --quiet || { echo "repo dirty"; exit 2; }
echo "== demo without patch"; (cd /tmp && PYTHONPATH=/repo timeout 600 /venv/bin/python $D/demo.py > $D/demo_without.txt 2>&1; echo "exit=$?" | tee -a $D/demo_without.txt)
git apply $D/patch.diff || { echo "patch does not apply"; exit 2; }
trap 'git -C /repo checkout -- . ' EXIT
echo "== demo with patch"; (cd /tmp && PYTHONPATH=/repo timeout 600 /venv/bin/python $D/demo.py > $D/demo_with.txt 2>&1; echo "exit=$?" | tee -a $D/demo_with.txt)
echo "== baseline suite with patch"; /venv/bin/python /verif/tools/baseline_check.py | tee $D/baseline_with.txt
echo "== check $PROP $TIER with patch"
OD=$(mktemp -d)
FLV_OUT_DIR=$OD /venv/bin/python /verif/check.py $PROP --tier $TIER 2>&1 | tail -8 | sed "s#$OD#<out>#g" | tee $D/check_with.txt
rm -rf $OD
git -C /repo checkout -- .
trap - EXIT
git -C /repo status --short | head
/venv/bin/python - "$D" "$NAME" "$PROP" "$TIER" <<'PY'
import json, os, sys
d, name, prop, tier = sys.argv[1:5]
agent = {}
if os.path.exists(os.path.join(d, "meta_agent.json")):
    try: agent = json.load(open(os.path.join(d, "meta_agent.json")))
    except Exception: agent = {}
rd = lambda f: open(os.path.join(d, f)).read().strip() if os.path.exists(os.path.join(d, f)) else ""
chk = rd("check_with.txt")
meta = {
  "id": name, "property": prop, "properties": [prop],
  "summary": agent.get("summary"), "needs": agent.get("needs"), "files": agent.get("files"),
  "confirmed": {
     "demo_without_patch": rd("demo_without.txt").splitlines()[-1:],
     "demo_with_patch": rd("demo_with.txt").splitlines()[-1:],
     "baseline_suite_with_patch": rd("baseline_with.txt").splitlines()[:1],
     "check": "check.py %s --tier %s" % (prop, tier),
     "check_detected": ("VIOLATION property=%s" % prop) in chk,
     "check_output_tail": chk.splitlines()[-6:],
  },
  "ran": "tools/try_seed.sh: demo.py against /repo with and without patch.diff applied (git apply / git checkout), pinned suite via tools/baseline_check.py with the patch, then the property's check",
}
json.dump(meta, open(os.path.join(d, "meta.json"), "w"), indent=1)
for f in ("meta_agent.json", "demo_without.txt", "demo_with.txt", "baseline_with.txt", "check_with.txt"):
    pass
print("meta:", meta["confirmed"]["check_detected"], meta["confirmed"]["demo_with_patch"], meta["confirmed"]["demo_without_patch"])
PY
