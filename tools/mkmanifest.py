#!/venv/bin/python
"""Regenerates /verif/MANIFEST.json from the table below (keeps it valid at all times)."""
import json
import os

HERE = os.path.dirname(os.path.dirname(os.path.abspath(__file__)))

CHECKS = {
    "C17": dict(
        category="exploration",
        technique="exhaustive enumeration of price grids / tick x n pairs against an independent integer ladder oracle; "
                  "Hypothesis-sampled product through market.place_order",
        text="Exhaustive over the grids named in the property (every x in [0,1100] on the 0.001 grid in thorough, 0.01 in quick, "
             "all tick mid-points and float neighbours; every tick x n in [-400,400]; both ladders) and over the validation "
             "threshold neighbourhoods for all 19 currencies; the full product is sampled. Held on everything explored, not a proof "
             "for reals outside the grid.",
        note="ladder oracle = published Betfair increment table in integer hundredths; Betdaq table and currency minimums pinned "
             "from documented constants (BETDAQ_CUTOFFS, betfairlightweight.metadata)",
        design="4/C17",
    ),
    "C04": dict(
        category="exploration",
        technique="Hypothesis-generated whole simulation runs (stream files + action scripts) with a size-conservation "
                  "invariant evaluated at every strategy callback",
        text="Thousands (quick) to >10^5 (thorough) generated market histories x action scripts run through the real "
             "FlumineSimulation; conservation, non-negativity, completion <=> zero remainder and matched-size monotonicity "
             "checked at every strategy call. Held on everything explored.",
        note="stream files are synthetic but rendered in the recorded-data format and parsed by the real listener/cache; "
             "closing updates are preceded by a suspension",
        design="4/C04",
    ),
    "C05": dict(
        category="exploration",
        technique="Hypothesis-generated (book, order, client options, later trades) cases run through the real simulation; "
                  "matching-validity predicates on every fragment at the moment it appears",
        text="Each case is one real placement against a generated book followed by generated trade updates; limit, VWAP, "
             "per-level availability, FOK all-or-nothing / never-rests and BPE-lapse predicates judged against the book "
             "snapshot rendered independently from the case. Held on everything explored.",
        note="validity predicates, not a second matcher; SP conversion fills excluded by construction",
        design="4/C05",
    ),
    "C07": dict(
        category="exploration",
        technique="Hypothesis-generated single-market and event-grouped simulation runs judged against an independent "
                  "latency timeline oracle, plus a metamorphic with/without-request comparison",
        text="For every accepted request the effective update is predicted from publish times, configured latency and bet "
             "delay and compared with observed order state at every callback; arrival fills must exist in the book before the "
             "effective update; all recorded timestamps bounded by the simulated clock. Held on everything explored.",
        note="updates falling exactly on the latency boundary accept either neighbour; clock observed through utcnow() in callbacks",
        design="4/C07",
    ),
    "C06": dict(
        category="exploration",
        technique="Hypothesis-generated resting-order scenarios judged against an independent cumulative traded ledger "
                  "(lone-order formula, Hall condition over all order subsets, price priority)",
        text="The traded ledger and queue sizes come from the generated timeline itself; per update the passive fills of every "
             "subset of orders in an isolation scope are bounded by the eligible half volume, a lone order matches the closed "
             "formula exactly (even-cent class) and better-priced orders are served first. Held on everything explored.",
        note="validity predicates instead of a second matcher (dict iteration order is not modelled); 2dp rounding tolerance stated in evidence",
        design="4/C06",
    ),
    "C09": dict(
        category="exploration",
        technique="Hypothesis-generated multi-market simulation runs with removals; fragment-by-fragment price tracking and "
                  "void / liability-scaling predicates after every update",
        text="Orders in every state at the removal, all factor classes around the 2.5 threshold, the same removal repeated in up "
             "to three markets of one framework (sequential and event-grouped); every fragment's price is followed across the "
             "run so a missed or repeated reduction shows. Held on everything explored.",
        note="non-runner liability formula taken from the repository's documented issue #454",
        design="4/C09",
    ),
    "C08": dict(
        category="exploration",
        technique="Hypothesis-generated simulation runs (real matching installs the fills, real CLOSED book delivers results) "
                  "judged by an exact Fraction settlement oracle, a mirror-order antisymmetry relation and the cleared summary",
        text="Fills come from aggressive multi-level matches, passive fills, SP reconciliation and non-runner reductions; results "
             "cover win/lose/placed/removed, 2-5 way dead heats, each-way divisors 2-5, line results incl. 0 and ties, four "
             "commission rates, one or two clients. Two recorded genuine defects (line tie, multi-line fills) are reported as "
             "KNOWN-FINDING. Held otherwise on everything explored.",
        note="tolerances follow the 2dp average price the code and the exchange API carry; each-way with dead heat outside",
        design="4/C08",
    ),
    "C16": dict(
        category="exploration",
        technique="Hypothesis-generated blotters of real order objects compared with a brute-force exposure oracle "
                  "(all fill subsets x all winner sets) and metamorphic exclusion / new_order relations",
        text="Tens of thousands (quick) to >10^6 (thorough) generated blotters, simulated and live order representations, all "
             "statuses and order types; the six get_exposures figures, selection_exposure and market_exposure are recomputed "
             "independently from the generated description. Held on everything explored.",
        note="starting-price orders modelled by their liability as the statement says; 2dp rounding tolerances stated in evidence",
        design="4/C16",
    ),
    "C19": dict(
        category="exploration",
        technique="Hypothesis-generated strategy names / separators / loop sizes with validity, uniqueness and a round trip "
                  "through process_current_orders of a second framework instance; bounded thread stress",
        text="Arbitrary unicode and very long names, every separator class, up to 2000 orders per loop under both clocks; "
             "references replayed as real CurrentOrder resources into a second Flumine instance. Thread uniqueness is sampled. "
             "Held on everything explored.",
        note="exchange character set / 32-character limit as documented in the repository; uniqueness across threads is a bounded stress test",
        design="4/C19",
    ),
    "C13": dict(
        category="exploration",
        technique="metamorphic testing over Hypothesis-generated simulation runs ({A} vs {A,B} vs {B,A} vs {A,B,C} vs {C,B,A}) "
                  "plus fault injection at generated callback invocations",
        text="A's normalised ledger must be identical alone and alongside other strategies in every registration order "
             "(generic scripts and a focused same-runner resting-order shape); an exception injected into another strategy's "
             "callback or a middleware call must leave A's ledger, every strategy's update sequence and order-state invariants "
             "unchanged; raw-data / sports-data / custom-event dispatch is driven directly on a live Flumine. Held on everything explored.",
        note="process_closed_market is outside the property's list of contained callbacks",
        design="4/C13",
    ),
    "C14": dict(
        category="exploration",
        technique="Hypothesis-generated multi-file runs with an independent listener-filter oracle, delivery/chronology "
                  "invariants, delivered-book == input-ledger comparison, repeated in-process runs and differential runs in "
                  "fresh subprocesses (different PYTHONHASHSEED, shifted wall clock)",
        text="Exactly-once delivery in file order per market, non-decreasing publish time inside event groups, clock == publish "
             "time, datetime restored after normal and exceptional exit, identical ledgers across repeated runs and across two "
             "fresh processes per sampled case. Held on everything explored.",
        note="subprocess comparison is a sample (40 cases quick / 1500 thorough); filter oracle written from the documented semantics",
        design="4/C14",
    ),
    "C20": dict(
        category="exploration",
        technique="Hypothesis-generated closing histories: whole simulation runs (endings: close, repeated close, close/re-open/"
                  "close, first update CLOSED) and an event-by-event drive of a real live Flumine (market books from the real "
                  "stream cache, recorder-mode dict updates, back-dated closure times) with per-closing-update invariants",
        text="Per closing update: closed-callback count per strategy by subscription / empty filter, final book, results on "
             "orders, one cleared-orders report iff orders and one cleared-market summary per client (simulation), closed flag, "
             "re-open resets flags, runner contexts and middleware state released, live removal only after one hour. "
             "Held on everything explored.",
        note="cleared events read per closing update; ages near the one-hour boundary not generated (wall-clock granularity)",
        design="4/C20",
    ),
    "C02": dict(
        category="exploration",
        technique="Hypothesis rule-based state machine over a stepped real FlumineSimulation with before/after snapshot "
                  "equality for refused requests and package accounting for accepted ones (incl. bulk transactions around "
                  "the 200/60/60/60 limits)",
        text="Thousands of generated request / market-event histories; every refused place / cancel / update / replace (by a "
             "default, client or custom control, or by the order's state) must leave order, trade, blotter views and runner "
             "context bit-for-bit unchanged and send nothing; every accepted request appears in exactly one package of the right "
             "kind, size and market version, in request order, with nothing left pending. Held on everything explored.",
        note="simulated execution world; Betfair-live/Betdaq share the Transaction code and are exercised by C11/C12 on the live double",
        design="4/C02",
    ),
    "C03": dict(
        category="exploration",
        technique="Hypothesis rule-based state machine (stepped simulation) feeding every recorded _update_status call to the "
                  "documented lifecycle automaton, plus generated call sequences on BetfairOrder / BetdaqOrder objects",
        text="Strategy requests on orders in any status interleaved with fills, suspensions, removals, in-play and closure, with "
             "directed race rules (a request in flight while the order completes for another reason); legal transitions, request "
             "guards (accepted only when executable with bet id and compatible type), at most one undelivered package per order "
             "and finality after completion. Held on everything explored.",
        note="finality judged at step (handler) boundaries; matched size may change after completion only through a runner removal (C09)",
        design="4/C03",
    ),
    "C10": dict(
        category="exploration",
        technique="Hypothesis rule-based state machine (stepped simulation) with an independent recount of every runner context "
                  "from the orders after each step and limit / cool-down oracles at each accepted or refused placement",
        text="live trades == placed trades with an order not complete, trades == distinct trades, trade COMPLETE iff all orders "
             "complete, no trade left PENDING, max_trade_count / max_live_trade_count / place and reset cool-downs honoured, never "
             "locked out of a runner whose orders all completed. One recorded genuine defect is reported as KNOWN-FINDING. "
             "Held otherwise on everything explored.",
        note="orders are never added to an already completed trade (only sanctioned via pending_orders, which is outside the property); "
             "forced placements exempt a runner from the limit clauses",
        design="4/C10",
    ),
    "C15": dict(
        category="exploration",
        technique="Hypothesis rule-based state machine (stepped simulation, 1-3 strategies, 1-2 clients, handicap lines) with a "
                  "shadow list of accepted orders compared with every blotter view and filter after each step",
        text="Exactly-once membership in the blotter and each view, identity of lookups by id and bet id (replacement orders), "
             "live list contains every non-complete order exactly once and never regains one, all 1- and 2-subsets of status "
             "filters with and without matched_only. Held on everything explored.",
        note="adoption from the order stream is covered by C11",
        design="4/C15",
    ),
    "C01": dict(
        category="exploration",
        technique="Hypothesis rule-based state machine (stepped simulation, default controls, no forcing) with a brute-force "
                  "exposure oracle (all fill subsets x all winner sets) at every accepted place / replace, plus a consequence "
                  "invariant and realised P&L bound in acknowledgement-discipline runs",
        text="Every accepted order is re-judged independently against the three configured limits counting it in full at its "
             "(new) price; directed rules build two orders that fit a limit individually but not together with a request in "
             "flight on the first. The replace-at-old-price defect is recorded and reported as KNOWN-FINDING. Held otherwise "
             "on everything explored.",
        note="only the 'only if' direction is judged; the decision is judged on the outcome the new order can worsen; each-way and "
             "bet_target_size outside",
        design="4/C01",
    ),
    "C18": dict(
        category="exploration",
        technique="Hypothesis rule-based state machine (stepped simulation, 1-2 clients with different limits, hour / day clock "
                  "jumps, bulk transactions) compared after every request and step with a shadow counter and restart model",
        text="Totals == executed place + replace instructions + FAILURE replies, hourly == the same since the modelled restart, "
             "each request refused iff limit set and hourly > limit, forced requests never refused, clients independent. "
             "Held on everything explored.",
        note="concurrency inside add_transaction (the lock) is not reachable by generated schedules; handler-granularity "
             "concurrency is covered on the live double",
        design="4/C18",
    ),
    "C11": dict(
        category="exploration",
        technique="Hypothesis-generated schedules on a live-exchange double (real Flumine, BetfairExecution, betfairlightweight "
                  "request/response code and order-stream cache; fake HTTP session and a deterministic task scheduler) with a "
                  "convergence oracle against the double's bet table at quiescent points and an adoption / restart oracle",
        text="Requests, exchange-side fills / lapses, snapshots taken now and processed later or twice, execution tasks run in any "
             "order with snapshots processed while their API call is in flight, crash + restart with a fresh-subscription image, "
             "bets of unknown strategies. One recorded genuine race defect (partial cancel vs stream update) is reported as "
             "KNOWN-FINDING. Held otherwise on everything explored.",
        note="the double is a model of the exchange's documented API / stream shapes; schedules at handler granularity; no transport faults here (C12)",
        design="4/C11",
    ),
    "C12": dict(
        category="fault_enumeration",
        technique="exhaustive enumeration (sharded over 16 processes) of fault assignments against the live double and the stepped "
                  "simulation, each combination judged by status / trade / transaction-count / retry-count / convergence oracles",
        text="All ~44k combinations of kind x package size 1-3 x per-instruction outcome x orders completed in between x report "
             "order / missing report x transport fault on attempts 1-4 (live) and kind x size x per-order fate x market status at "
             "execution (simulated) are executed in both tiers. Held on every combination.",
        note="exchange double answers with the documented JSON-RPC shapes and de-duplicates by customerRef as the exchange does; Betdaq outside",
        design="4/C12",
    ),
}

# sub-checks added after the table was written (appended to the level text)
EXTRA = {
    "C01": " Sub-check headroom: directed generated traces in discipline runs (order near the limit, partial/full cancels and fills, further orders into the freed headroom, starting-price reconciliation, close).",
    "C02": " Sub-check delivery: every created package is executed exactly once unless its market's recording ends first (event groups included).",
    "C05": " Sub-checks resting (passive fills only from volume traded at or through the limit) and replace (a replacement order is judged like a fresh placement, BPE-off lapse included).",
    "C03": " Sub-check betdaq_stream: the Betdaq order-stream path with real BetdaqOrders (an UPDATING order is released only by a snapshot of its own with a new sequence number; no request is accepted meanwhile). Live schedules include instruction-level TIMEOUT / FAILURE reports.",
    "C06": " Resting orders carry PERSIST / LAPSE / MARKET_ON_CLOSE persistence; one run in six withdraws another runner while the orders rest.",
    "C07": " Sub-check inflight (metamorphic): with vs without a request in flight the order is filled identically until the request takes effect. Sub-check combined: 2-3 markets in one recording off a common grid, clock clause at every callback. Without a bet delay an update exactly the latency after the request is not yet due.",
    "C08": " Withdrawals first visible in the closing definition; directed multi-price taker followed by a removal elsewhere.",
    "C10": " Directed rules overlap_reset and rejoin_completed_trade.",
    "C12": " Thorough tier adds packages of four orders (250k combinations). A placement answered TIMEOUT must not be declared complete while its bet rests at the exchange.",
    "C17": " Probe prices where payout / price does not terminate; an exception out of the validation sweep is a finding.",
    "C18": " Refused orders submitted again (also through another client), cancel batches failing inside the latency.",
    "C09": " Runs with the pre-play-only listener; removals without a published factor followed by removals with one.",
    "C11": " One schedule in four runs on a handicap market (the same selection on two lines); directed prefixes (chased replace chain, partial cancel with the stream ahead); instruction-level TIMEOUT / FAILURE reports; runner contexts recounted at quiescent points. Two known findings are replayed on every run.",
    "C13": " Sub-check event_group: A on one market vs B also on a sibling recording of the event; process_orders calls are part of the compared sequence.",
    "C14": " One child process has a wall clock that runs (11 min per reading); scenarios with hourly transaction limits over several simulated hours.",
    "C15": " Status / matched-only filters are checked on every view (strategy, strategy+selection+handicap, client, client+strategy) in the simulated machine and the live invariant; markets re-opened after closure.",
    "C16": " After all queries a removal is applied with the simulation's own routine and every figure is asked for again.",
    "C19": " Sub-check sim_runs: whole simulation runs over recordings sharing publish times; references shared by a replaced bet and its replacement in the replayed image; sub-check betdaq_stream: Betdaq order-stream batches with references of other instances.",
    "C20": " Recorder-mode updates with and without a market definition; sub-check filters: strategies with different listener filters on one recording (one stream each) are each called once, for their stream's closure.",
}

NOT_BUILT_REASON = "check not built yet (build in progress; see DESIGN.md section 4)"
NOT_APPLICABLE = {}


def main():
    props = [json.loads(l) for l in open(os.path.join(HERE, "properties.jsonl"))]
    checks = []
    na = []
    for p in props:
        pid = p["id"]
        c = CHECKS.get(pid)
        if c is None:
            na.append({"property_id": pid, "reason": NOT_APPLICABLE.get(pid, NOT_BUILT_REASON)})
            continue
        checks.append({
            "property_id": pid,
            "quick_cmd": "/venv/bin/python check.py %s --tier quick" % pid,
            "thorough_cmd": "/venv/bin/python check.py %s --tier thorough" % pid,
            "evidence_file": "/verif/evidence/%s.json" % pid,
            "replay_cmd_template": "/venv/bin/python check.py %s --replay {path}" % pid,
            "engine": "flv",
            "level_claimed": {"category": c["category"], "text": c["text"] + EXTRA.get(pid, ""), "design_ref": c["design"]},
            "level_note": c["note"],
            "technique": c["technique"],
        })
    m = {
        "version": 1,
        "setup_cmd": "/venv/bin/python -c 'import hypothesis' 2>/dev/null || /venv/bin/pip install --no-index "
                     "--find-links /opt/veriftools/wheels hypothesis",
        "hooks": {
            "guard": "FLUMINE_VERIF",
            "enable": "no source hooks: every observation point is wrapped inside the checker process "
                      "(flumine is imported from /repo's working tree by check.py)",
            "baseline_off_cmd": "cd /repo && /venv/bin/python -m pytest -ra -q -p no:cacheprovider --timeout=900 "
                                "--continue-on-collection-errors",
            "source_commits": [],
            "add_only": True,
        },
        "engines": [{
            "name": "flv",
            "path": "/verif/check.py",
            "serves_properties": sorted(CHECKS),
            "kind_free_text": "Hypothesis (given + rule-based state machines) and sharded exhaustive enumeration driving the real "
                              "flumine code (simulation lab, stepped simulation, live double) against independent oracles",
        }],
        "checks": checks,
        "not_applicable": na,
        "notes": "Property-based testing / fuzzing family only. check.py exits 0/1/2 (2 = harness error, never a violation). "
                 "known_findings.json lists recorded genuine defects (KNOWN-FINDING lines) and fixed ones.",
    }
    with open(os.path.join(HERE, "MANIFEST.json"), "w") as f:
        json.dump(m, f, indent=1)
    print("checks:", [c["property_id"] for c in checks], "na:", len(na))


if __name__ == "__main__":
    main()
