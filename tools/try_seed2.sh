#!/bin/bash
# usage: try_seed2.sh <seed_dir_out> <name> <prop> [tier]
# like try_seed.sh but never touches /repo: the patch is applied to a scratch copy of /repo's working tree.
set -u
OUT=$1; NAME=$2; PROP=$3; TIER=${4:-quick}
D=/verif/seeded/$NAME
mkdir -p $D
[ "$OUT" != "$D" ] && { cp $OUT/patch.diff $D/patch.diff; cp $OUT/demo.py $D/demo.py 2>/dev/null; [ -f $OUT/meta.json ] && cp $OUT/meta.json $D/meta_agent.json; }
S=$(mktemp -d /dev/shm/flv_seed_XXXX)
rsync -a --exclude .git --exclude __pycache__ /repo/ $S/
echo "== demo without patch"; (cd /tmp && PYTHONPATH=$S timeout 600 /venv/bin/python $D/demo.py > $D/demo_without.txt 2>&1; echo "exit=$?" | tee -a $D/demo_without.txt)
(cd $S && patch -p1 -s < $D/patch.diff) || { echo "patch does not apply"; rm -rf $S; exit 2; }
echo "== demo with patch"; (cd /tmp && PYTHONPATH=$S timeout 600 /venv/bin/python $D/demo.py > $D/demo_with.txt 2>&1; echo "exit=$?" | tee -a $D/demo_with.txt)
echo "== baseline suite with patch"; BASE_REPO=$S PYTHONPATH=$S /venv/bin/python /verif/tools/baseline_check.py | tee $D/baseline_with.txt
echo "== check $PROP $TIER with patch"
OD=$(mktemp -d)
FLV_REPO=$S FLV_OUT_DIR=$OD /venv/bin/python /verif/check.py $PROP --tier $TIER 2>&1 | grep -v "^KNOWN" | tail -8 | sed "s#$OD#<out>#g" | tee $D/check_with.txt
rm -rf $OD $S
/venv/bin/python - "$D" "$NAME" "$PROP" "$TIER" <<'PY'
import json, os, sys
d, name, prop, tier = sys.argv[1:5]
agent = {}
if os.path.exists(os.path.join(d, "meta_agent.json")):
    try: agent = json.load(open(os.path.join(d, "meta_agent.json")))
    except Exception: agent = {}
old = {}
if os.path.exists(os.path.join(d, "meta.json")):
    try: old = json.load(open(os.path.join(d, "meta.json")))
    except Exception: old = {}
rd = lambda f: open(os.path.join(d, f)).read().strip() if os.path.exists(os.path.join(d, f)) else ""
chk = rd("check_with.txt")
meta = {
  "id": name, "property": prop, "properties": [prop],
  "summary": agent.get("summary") or old.get("summary"), "needs": agent.get("needs") or old.get("needs"), "files": agent.get("files") or old.get("files"),
  "confirmed": {
     "demo_without_patch": rd("demo_without.txt").splitlines()[-1:],
     "demo_with_patch": rd("demo_with.txt").splitlines()[-1:],
     "baseline_suite_with_patch": rd("baseline_with.txt").splitlines()[:1],
     "check": "check.py %s --tier %s" % (prop, tier),
     "check_detected": ("VIOLATION property=%s" % prop) in chk,
     "check_output_tail": chk.splitlines()[-6:],
  },
  "ran": "tools/try_seed2.sh: scratch copy of /repo's working tree; demo.py with and without patch.diff, the pinned suite (tools/baseline_check.py) with the patch, then the property's check with FLV_REPO pointing at the patched copy",
}
if old.get("history"): meta["history"] = old["history"]
json.dump(meta, open(os.path.join(d, "meta.json"), "w"), indent=1)
print("meta:", meta["confirmed"]["check_detected"], meta["confirmed"]["demo_with_patch"], meta["confirmed"]["demo_without_patch"], meta["confirmed"]["baseline_suite_with_patch"])
PY
rm -f $D/meta_agent.json
