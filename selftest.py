#!/venv/bin/python
"""Sensitivity self-test: apply each mutant (mutants/<Cxx>/*.json: {file, old, new, note}) or seeded
patch (seeded/<id>/patch.diff) to a scratch copy of /repo's package, run the property's quick check
against the copy and require exit 1 with a VIOLATION line.  Also `--quiet-check` runs every quick
check on the unchanged tree at several seeds.

usage: selftest.py [Cxx ...] [--tier quick] [--seeded] [--quiet-check N]
"""
import argparse
import glob
import json
import os
import shutil
import subprocess
import sys
import tempfile

HERE = os.path.dirname(os.path.abspath(__file__))


def scratch_copy():
    d = tempfile.mkdtemp(prefix="flv_mut_", dir="/dev/shm" if os.path.isdir("/dev/shm") else None)
    shutil.copytree("/repo/flumine", os.path.join(d, "flumine"),
                    ignore=shutil.ignore_patterns("__pycache__"))
    return d


def run_check(prop, tier, repo, seed="1", timeout=3600):
    out = tempfile.mkdtemp(prefix="flv_out_", dir="/dev/shm" if os.path.isdir("/dev/shm") else None)
    env = dict(os.environ, FLV_REPO=repo, FLV_OUT_DIR=out, VERIF_SEED=str(seed))
    try:
        p = subprocess.run([sys.executable, os.path.join(HERE, "check.py"), prop, "--tier", tier],
                           env=env, capture_output=True, text=True, timeout=timeout)
        return p.returncode, p.stdout, p.stderr
    finally:
        shutil.rmtree(out, ignore_errors=True)


def apply_json(mut, root):
    path = os.path.join(root, mut["file"])
    s = open(path).read()
    if s.count(mut["old"]) != 1:
        raise ValueError("mutant %s: old text occurs %d times in %s" % (mut.get("note"), s.count(mut["old"]), mut["file"]))
    open(path, "w").write(s.replace(mut["old"], mut["new"]))


def main():
    ap = argparse.ArgumentParser()
    ap.add_argument("props", nargs="*")
    ap.add_argument("--tier", default="quick")
    ap.add_argument("--seeded", action="store_true")
    ap.add_argument("--quiet-check", type=int, default=0)
    ap.add_argument("--only")
    args = ap.parse_args()
    props = [p.upper() for p in args.props] or sorted(
        {os.path.basename(os.path.dirname(p)) for p in glob.glob(os.path.join(HERE, "mutants", "C*", "*.json"))})
    failed = 0
    if args.quiet_check:
        for prop in props:
            for seed in range(1, args.quiet_check + 1):
                rc, out, err = run_check(prop, args.tier, "/repo", seed)
                tail = out.strip().splitlines()[-1] if out.strip() else err.strip()[-300:]
                print("QUIET %s seed=%d rc=%d %s" % (prop, seed, rc, tail), flush=True)
                failed += rc != 0
        return 1 if failed else 0
    for prop in props:
        items = []
        for mp in sorted(glob.glob(os.path.join(HERE, "mutants", prop, "*.json"))):
            items.append(("mutant", mp))
        if args.seeded:
            for meta in sorted(glob.glob(os.path.join(HERE, "seeded", "*", "meta.json"))):
                m = json.load(open(meta))
                if prop in m.get("properties", [m.get("property")]):
                    items.append(("seeded", os.path.join(os.path.dirname(meta), "patch.diff")))
        for kind, path in items:
            if args.only and args.only not in path:
                continue
            d = scratch_copy()
            try:
                if kind == "mutant":
                    try:
                        apply_json(json.load(open(path)), d)
                    except ValueError as e:  # the repository text the mutant edits has changed
                        print("STALE %s %s" % (os.path.relpath(path, HERE), e), flush=True)
                        failed += 1
                        continue
                else:
                    r = subprocess.run(["patch", "-p1", "-d", d, "-i", path], capture_output=True, text=True)
                    if r.returncode:
                        print("PATCH-FAILED %s\n%s" % (path, r.stdout + r.stderr))
                        failed += 1
                        continue
                rc, out, err = run_check(prop, args.tier, d)
                ok = rc == 1 and "VIOLATION property=%s" % prop in out
                sig = [l for l in out.splitlines() if l.startswith("violation ")][:2]
                print("%s %s %s rc=%d %s" % ("CAUGHT" if ok else "MISSED", prop, os.path.relpath(path, HERE), rc,
                                             " | ".join(s[:160] for s in sig) if ok else (err.strip()[-400:] if rc == 2 else "")), flush=True)
                failed += not ok
            finally:
                shutil.rmtree(d, ignore_errors=True)
    return 1 if failed else 0


if __name__ == "__main__":
    sys.exit(main())
